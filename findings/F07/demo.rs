//! F07 (C14): PreviewHeader read its width fields even when an aspect-ratio code is present.
//! ISO/IEC 18181-1 A.? PreviewHeader: `w_div8` is present iff `div8 && ratio == 0`, `width` iff
//! `!div8 && ratio == 0` (exactly as in SizeHeader); with `ratio != 0` the width is derived from the
//! height. Install as crates/jxl-image/tests/f07.rs; `cargo test -p jxl-image --offline --test f07`.
//! Fails before the fix commit, passes after it.
use jxl_bitstream::Bitstream;
use jxl_image::PreviewHeader;
use jxl_oxide_common::Bundle;

#[test]
fn preview_with_ratio_code_has_no_width_field() {
    // bits, LSB first: div8 = 1; h_div8 selector 0 (= 16, height 128); ratio = 1 (1:1);
    // then a set bit that belongs to whatever follows the preview header
    //   bit0 = 1, bits1-2 = 00, bits3-5 = 001 (value 1, LSB first: 1,0,0), bit6.. = 1s
    let bytes = [0b1100_1001u8, 0xff, 0xff, 0xff, 0xff, 0xff, 0xff, 0xff, 0xff];
    let mut bs = Bitstream::new(&bytes);
    let p = PreviewHeader::parse(&mut bs, ()).unwrap();
    assert_eq!(p.height, 128);
    assert_eq!(p.width, 128, "ratio code 1 means width = height");
    assert_eq!(bs.num_read_bits(), 6, "div8 + 2-bit selector + 3-bit ratio");
}

#[test]
fn explicit_preview_with_ratio_code() {
    // div8 = 0; height selector 0 (1 + u(6)), u(6) = 29 -> height 30; ratio = 7 (2:1) -> width 60
    // bits: 0 | 00 | 101110 (29 LSB first: 1,0,1,1,1,0) | 111 | then ones
    let mut v: u64 = 0;
    let mut n = 0;
    let mut put = |x: u64, k: u32| {
        v |= x << n;
        n += k;
    };
    put(0, 1);
    put(0, 2);
    put(29, 6);
    put(7, 3);
    put(0xffff, 16);
    let bytes = v.to_le_bytes();
    let mut bs = Bitstream::new(&bytes);
    let p = PreviewHeader::parse(&mut bs, ()).unwrap();
    assert_eq!((p.width, p.height), (60, 30));
    assert_eq!(bs.num_read_bits(), 12);
}
