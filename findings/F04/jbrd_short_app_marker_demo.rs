// F04 demonstration: a hostile JPEG reconstruction (jbrd) header with a 1-byte ICC APP2 marker
// record. Dev profile: panics with 'attempt to subtract with overflow' in expected_icc_len
// before the fix; returns Err after it.
use jxl_bitstream::Bitstream;
use jxl_frame::{Frame, FrameContext};
use jxl_image::ImageHeader;
use jxl_jbr::JpegBitstreamData;
use jxl_oxide_common::Bundle;
use jxl_threadpool::JxlThreadPool;
use std::sync::Arc;

struct W { bytes: Vec<u8>, n: usize }
impl W {
    fn put(&mut self, v: u64, bits: usize) {
        for i in 0..bits {
            if self.n % 8 == 0 { self.bytes.push(0); }
            if (v >> i) & 1 == 1 { *self.bytes.last_mut().unwrap() |= 1 << (self.n % 8); }
            self.n += 1;
        }
    }
}

fn main() {
    let mut w = W { bytes: Vec::new(), n: 0 };
    w.put(0, 1); // is_gray
    w.put(0x22, 6); // marker 0xe2 (APP2)
    w.put(0x19, 6); // marker 0xd9 (EOI)
    w.put(1, 2); // AppMarker.ty: U32 selector 1 => 1 (ICC)
    w.put(0, 16); // AppMarker.length = 0 + 1
    w.put(0, 2); // one quant table
    w.put(0, 4); // precision, index, is_last
    w.put(0, 2); // comp_type 0 => one component
    w.put(0, 2); // q_idx
    w.put(0, 2); // num_huff selector 0 => 4 tables
    for _ in 0..4 {
        w.put(0, 4); // is_ac, id, is_last
        for _ in 0..17 { w.put(0, 2); } // counts: selector 0 => 0
    }
    w.put(0, 2); // tail_data_length selector 0 => 0
    w.put(0, 1); // has_padding
    let data = JpegBitstreamData::try_parse(&w.bytes).map(|d| d.expect("complete"));
    // a real 8x8 frame (all-default headers) to reconstruct against
    let cs: [u8; 8] = [0xff, 0x0a, 0x41, 0x06, 0x01, 0x00, 0x00, 0x00];
    let mut bs = Bitstream::new(&cs);
    let ih = Arc::new(ImageHeader::parse(&mut bs, ()).unwrap());
    let frame = Frame::parse(&mut bs, FrameContext { image_header: ih, tracker: None, pool: JxlThreadPool::none() }).unwrap();
    let r = data.reconstruct(&frame, &[], &[], &[], &JxlThreadPool::none());
    println!("reconstruct returned: {}", if r.is_ok() { "Ok" } else { "Err" });
}
