//! F06 (C18): an ICC tag-list command whose explicit tag offset is 2^32 + 140 was accepted
//! (truncated to 140 before the `tagstart + tagsize > output_size` check) instead of rejected.
//! Install as crates/jxl-color/tests/f06.rs; `cargo test -p jxl-color --offline --test f06`.
//! Fails before the fix commit, passes after it.
fn varint(mut v: u64) -> Vec<u8> {
    let mut o = vec![];
    loop {
        let b = (v & 127) as u8;
        v >>= 7;
        if v == 0 {
            o.push(b);
            break;
        }
        o.push(b | 128);
    }
    o
}

#[test]
fn tag_offset_beyond_32_bits_is_rejected() {
    let output_size = 180u64;
    // count = 2 (one tag); command: tag code 4 ('cprt') | explicit offset | explicit size
    let mut cmds = vec![2u8, 4 | 64 | 128];
    cmds.extend(varint((1u64 << 32) + 140));
    cmds.extend(varint(8));
    let mut s = varint(output_size);
    s.extend(varint(cmds.len() as u64));
    s.extend(&cmds);
    s.extend(std::iter::repeat(0u8).take(128));
    assert!(jxl_color::icc::decode_icc(&s).is_err(), "offset 2^32+140 lies beyond a 180-byte profile");
    // control: the same command with offset 140 is fine
    let mut cmds = vec![2u8, 4 | 64 | 128];
    cmds.extend(varint(140));
    cmds.extend(varint(8));
    let mut s = varint(output_size);
    s.extend(varint(cmds.len() as u64));
    s.extend(&cmds);
    s.extend(std::iter::repeat(0u8).take(128));
    let out = jxl_color::icc::decode_icc(&s).unwrap();
    assert_eq!(&out[132..144], &[b'c', b'p', b'r', b't', 0, 0, 0, 140, 0, 0, 0, 8]);
}
