use jxl_oxide::{AllocTracker, JxlImage, JxlThreadPool};
fn main() {
    let p = std::env::args().nth(1).unwrap();
    let data = std::fs::read(p).unwrap();
    let image = JxlImage::builder().pool(JxlThreadPool::none()).alloc_tracker(AllocTracker::with_limit(128 << 20)).read(std::io::Cursor::new(&data[..])).unwrap();
    eprintln!("keyframes {} frames {}", image.num_loaded_keyframes(), image.num_loaded_frames());
    for k in 0..image.num_loaded_keyframes() {
        let a = image.render_frame(k).map(|_| ()).map_err(|e| e.to_string());
        eprintln!("k{k} first: {:?}", a);
        let b = image.render_frame(k).map(|_| ()).map_err(|e| e.to_string());
        eprintln!("k{k} second: {:?}", b);
    }
}
