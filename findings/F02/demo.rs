// F02 demonstration (dev profile): panics before the fix, prints 1 after.
use jxl_image::BitDepth;
fn main() {
    let d = BitDepth::IntegerSample { bits_per_sample: 31 };
    println!("{}", d.parse_integer_sample(i32::MAX));
}
