// F08 demonstration (jxl-jbr, needs RUSTFLAGS='--cfg jxl_oxide_verif' for the hooks in
// jxl_jbr::verif). Place as crates/jxl-jbr/tests/f08_demo.rs and run
//   RUSTFLAGS='--cfg jxl_oxide_verif' cargo test -p jxl-jbr --offline --test f08_demo
// At f645519 (before the fix) test 1 panics with "index out of bounds: the len is 0 but the index
// is 0" (huffman.rs, `lengths[0]`), test 2 with "attempt to shift left with overflow" and test 3
// accepts an empty record (whose `values.len() - 1` underflows in the DHT arm of
// JpegBitstreamReconstructor::write_next_marker); at 30689dc all three pass.
use jxl_jbr::verif as jv;

#[test]
fn sentinel_only_table_builds() {
    // a DHT table with no symbol: the reconstruction record holds just the sentinel (one value of
    // length 1). The DHT writer emits 16 zero counts for it and then builds the table.
    let mut counts = [0u8; 17];
    counts[1] = 1;
    assert!(jv::huffman_build_and_lookup(counts, vec![0], 0).is_err());
}

fn record(sel0: u64, sel1: u64) -> [u8; 8] {
    // LSB first: is_ac, id(2), is_last, then 17 two-bit count selectors (0 -> 0, 1 -> 1), then
    // values (selector 0 + 2 bits each)
    let bits: u64 = sel0 << 4 | sel1 << 6;
    bits.to_le_bytes()
}

#[test]
fn code_of_length_zero_is_rejected() {
    let bytes = record(1, 0);
    let mut bs = jxl_bitstream::Bitstream::new(&bytes);
    assert_eq!(jv::huffman_parse_build_and_lookup(&mut bs, 0), Err(true));
}

#[test]
fn empty_record_is_rejected() {
    let bytes = record(0, 0);
    let mut bs = jxl_bitstream::Bitstream::new(&bytes);
    assert_eq!(jv::huffman_parse_build_and_lookup(&mut bs, 0), Err(true));
}
