// F10 demonstration (jxl-coding, needs RUSTFLAGS='--cfg jxl_oxide_verif' for jxl_coding::verif).
// Place as crates/jxl-coding/tests/f10_demo.rs and run
//   RUSTFLAGS='--cfg jxl_oxide_verif' cargo test -p jxl-coding --offline --test f10_demo
// Before the fix (8899193) the test panics in the dev profile with "attempt to add with overflow"
// (lib.rs, DecoderRleMode::read_varint_clustered); an optimised build returned Repeat(2), a short
// wrapped run. After the fix the hostile run length is an error.
use jxl_bitstream::Bitstream;
use jxl_coding::verif as cv;

#[test]
fn rle_run_length_that_does_not_fit_is_an_error() {
    let symbol_conf = cv::IntConf { split_exponent: 4, msb_in_token: 1, lsb_in_token: 0 };
    let length_conf = cv::IntConf { split_exponent: 0, msb_in_token: 0, lsb_in_token: 0 };
    // length token 32 with split exponent 0: 31 extra bits, all ones => length 2^32 - 1, plus min_length 3
    let stream = [0xffu8; 16];
    let mut bs = Bitstream::new(&stream);
    let r = cv::rle_step(&mut bs, 224 + 32, &symbol_conf, &length_conf, 224, 3);
    assert!(r.is_err(), "got {r:?}");
}
