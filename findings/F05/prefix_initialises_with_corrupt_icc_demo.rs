// F05 demonstration: a proper prefix of a valid file makes try_init() succeed with a corrupted
// ICC profile instead of reporting NeedMoreData (C11).
use jxl_oxide::{InitializeResult, JxlImage};
fn init_with_prefix(data: &[u8], n: usize) -> Option<Vec<u8>> {
    let mut uninit = JxlImage::builder().build_uninit();
    uninit.feed_bytes(&data[..n]).unwrap();
    match uninit.try_init().unwrap() {
        InitializeResult::NeedMoreData(_) => None,
        InitializeResult::Initialized(image) => Some(image.original_icc().map(|x| x.to_vec()).unwrap_or_default()),
    }
}
fn main() {
    let data = std::fs::read("/repo/crates/jxl-oxide-tests/tests/cms/cmyk_layers.jxl").unwrap();
    let full = init_with_prefix(&data, data.len()).expect("full file initialises");
    let mut bad = Vec::new();
    for n in 376_000..376_600 {
        if let Some(icc) = init_with_prefix(&data, n) {
            if icc != full { bad.push(n); }
        }
    }
    println!("prefix lengths that initialise with a different ICC profile: {:?}", bad);
    assert!(bad.is_empty(), "a prefix initialised with corrupted header data");
}
