// F09 demonstration (jxl-modular, needs RUSTFLAGS='--cfg jxl_oxide_verif' for the hooks in
// jxl_modular::verif). Place as crates/jxl-modular/tests/f09_demo.rs and run
//   RUSTFLAGS='--cfg jxl_oxide_verif' cargo test -p jxl-modular --offline --test f09_demo
// Before the fix (30689dc) both tests panic in the dev profile ("attempt to multiply with
// overflow" / "attempt to subtract with overflow", palette.rs:75); after it they pass. In an
// optimised build the old code returned a wrapped, wrong sample instead.
use jxl_grid::{MutableSubgrid, SharedSubgrid};
use jxl_modular::verif::{palette as pv, Predictor};

fn implicit(index: i32, bit_depth: u32) -> [i32; 3] {
    let pal_buf = [7i32, 8, 9]; // one explicit colour, three channels
    let palette = SharedSubgrid::from_buf(&pal_buf[..], 1, 3, 1);
    let (mut b0, mut b1, mut b2) = ([index], [0i32], [0i32]);
    let targets = vec![
        MutableSubgrid::from_buf(&mut b0[..], 1, 1, 1),
        MutableSubgrid::from_buf(&mut b1[..], 1, 1, 1),
        MutableSubgrid::from_buf(&mut b2[..], 1, 1, 1),
    ];
    let pal = pv::new_palette(0, 3, 1, 0, Predictor::Zero, None);
    pv::inverse_inner::<i32>(&pal, palette, targets, bit_depth);
    [b0[0], b1[0], b2[0]]
}

#[test]
fn small_cube_entry_at_30_bits() {
    // index 1 + 0b11_10_11: channel values 3, 2, 3 quarters of the range plus the 1/8 offset
    let max = (1i64 << 30) - 1;
    let off = 1i64 << 27;
    let want = [3 * max / 4 + off, 2 * max / 4 + off, 3 * max / 4 + off].map(|v| v as i32);
    assert_eq!(implicit(1 + 0b11_10_11, 30), want);
}

#[test]
fn large_cube_entry_at_31_bits() {
    // index 1 + 64 + (4 + 5*2 + 25*1): channels 4/4, 2/4, 1/4 of the range
    let max = (1i64 << 31) - 1;
    let want = [4 * max / 4, 2 * max / 4, max / 4].map(|v| v as i32);
    assert_eq!(implicit(1 + 64 + 4 + 10 + 25, 31), want);
}
