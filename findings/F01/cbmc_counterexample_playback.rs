// counterexample for c_container::c10_step_waiting_box_header (property C10) found by CBMC; replay with
//   /verif/bin/check --replay /verif/replays/C10/c10_step_waiting_box_header.rs
// repo: {"head": "bfb72e3c77e6e19b4f37267cd11f012b296dcf7c", "dirty": false, "diff_sha256": "e3b0c44298fc1c14"}
// module: c_container
/// Test generated for harness `c_container::c10_step_waiting_box_header` 
///
/// Check for `assertion`: "assertion failed: got == want"

#[test]
fn kani_concrete_playback_c10_step_waiting_box_header_16231167174737442393() {
    let concrete_vals: Vec<Vec<u8>> = vec![
        // 0
        vec![0],
        // 0
        vec![0],
        // 0
        vec![0],
        // 1
        vec![1],
        // 98
        vec![98],
        // 114
        vec![114],
        // 111
        vec![111],
        // 98
        vec![98],
        // 2
        vec![2],
        // 255
        vec![255],
        // 128
        vec![128],
        // 254
        vec![254],
        // 0
        vec![0],
        // 0
        vec![0],
        // 1
        vec![1],
        // 0
        vec![0],
        // 0
        vec![0],
        // 0
        vec![0],
        // 0
        vec![0],
        // 1
        vec![1],
        // 9ul
        vec![9, 0, 0, 0, 0, 0, 0, 0],
        // 0
        vec![0],
        // 106
        vec![106],
        // 120
        vec![120],
        // 108
        vec![108],
        // 112
        vec![112],
        // 1
        vec![1],
        // 136
        vec![136],
        // 128
        vec![128],
        // 108
        vec![108],
        // 255
        vec![255],
        // 1
        vec![1],
        // 0ul
        vec![0, 0, 0, 0, 0, 0, 0, 0],
        // 0
        vec![0],
        // 1
        vec![1],
        // 2
        vec![2],
        // 50298879
        vec![255, 127, 255, 2],
    ];
    kani::concrete_playback_run(concrete_vals, c10_step_waiting_box_header);
}

