// Demonstration for the fix: a box with a 64-bit size whose 16-byte header is split across feeds.
use jxl_bitstream::{ContainerParser, ParseEvent};
fn main() {
    let mut file = b"\x00\x00\x00\x0cJXL \x0d\x0a\x87\x0a".to_vec();
    file.extend_from_slice(b"\x00\x00\x00\x01jxlc\x00\x00\x00\x00\x00\x00\x00\x12\xff\x0a");
    let mut parser = ContainerParser::new();
    let mut codestream = Vec::new();
    let mut pending: Vec<u8> = Vec::new();
    // feed: signature + first 9 bytes of the box header, then the rest
    for chunk in [&file[..21], &file[21..]] {
        pending.extend_from_slice(chunk);
        let mut it = parser.feed_bytes(&pending);
        for ev in &mut it {
            match ev.expect("valid container must not be rejected") {
                ParseEvent::Codestream(b) => codestream.extend_from_slice(b),
                _ => {}
            }
        }
        let c = parser.previous_consumed_bytes();
        pending.drain(..c);
    }
    assert_eq!(codestream, b"\xff\x0a");
    println!("ok");
}
