// placeholder; overwritten by bin/check --replay
