//! Bitstream primitives: C01 (total), C02 (refill's from_raw_parts), C11 (prefix => EOF),
//! C14 (U32/U64/F16/Enum round trip and exact bit count).
use crate::spec::bitwriter::*;
use jxl_bitstream::{Bitstream, U};

fn any_buf<const N: usize>() -> ([u8; N], usize) {
    let buf: [u8; N] = kani::any();
    let len: usize = kani::any();
    kani::assume(len <= N);
    (buf, len)
}

/// One arbitrary public read operation; returns a digest of the outcome.
/// 0 = Err(eof), 1 = Err(other), 2.. = Ok(value-digest)
fn one_op(bs: &mut Bitstream<'_>, op: u8, arg: usize) -> (u8, u64) {
    let r = match op {
        0 => bs.read_bits(arg).map(|v| v as u64),
        1 => bs.read_u64(),
        2 => bs.read_u32(0, 1, 2 + U(4), 18 + U(6)).map(|v| v as u64),
        3 => bs.read_u32(U(8), 256 + U(11), 2304 + U(14), 18688 + U(30)).map(|v| v as u64),
        4 => bs.read_f16_as_f32().map(|v| v.to_bits() as u64),
        5 => bs.skip_bits(arg).map(|_| 0),
        6 => bs.zero_pad_to_byte().map(|_| 0),
        7 => bs.read_bool().map(|v| v as u64),
        _ => {
            let v = bs.peek_bits(arg) as u64;
            bs.consume_bits(arg).map(|_| v)
        }
    };
    match r {
        Ok(v) => (2, v),
        Err(e) => {
            let eof = e.unexpected_eof();
            std::mem::forget(e);
            (if eof { 0 } else { 1 }, 0)
        }
    }
}

fn pick_op(lo: u8, hi: u8) -> (u8, usize) {
    let op: u8 = kani::any();
    kani::assume(op >= lo && op <= hi);
    let arg: usize = kani::any();
    if op == 5 {
        kani::assume(arg <= 200);
    } else {
        kani::assume(arg <= 32);
    }
    (op, arg)
}

/// `one_op` with the operation resolved to a constant in every branch, so that symbolic
/// execution only enters the arms of the group [lo, hi].
fn one_op_in(bs: &mut Bitstream<'_>, lo: u8, hi: u8, op: u8, arg: usize) -> (u8, u64) {
    let mut k = lo;
    while k <= hi {
        if op == k {
            return one_op(bs, k, arg);
        }
        k += 1;
    }
    (1, 0)
}

/// State family: a reader over `len <= 16` symbolic bytes after `read_bits(lead)`, lead 0..=32;
/// then one arbitrary operation from the group [lo, hi].
fn bits_total(lo: u8, hi: u8, with_lead: bool) {
    let (buf, len) = any_buf::<16>();
    let mut bs = Bitstream::new(&buf[..len]);
    if with_lead {
        let lead: usize = kani::any();
        kani::assume(lead <= 32);
        let r = bs.read_bits(lead);
        core::mem::forget(r);
    }
    let (op, arg) = pick_op(lo, hi);
    let (k, _) = one_op_in(&mut bs, lo, hi, op, arg);
    kani::cover!(k == 2, "op succeeded");
    kani::cover!(k == 0, "eof reported");
    assert!(bs.num_read_bits() <= len * 8);
}

// @prop C01 C02
// @tier quick
// @unit jxl_bitstream::Bitstream::{skip_bits,refill,refill_slow}
// @sym buffer bytes (16) and length 0..=16; read_bits(lead) with lead 0..=32, then skip_bits(n) with n 0..=200
// @bound buffer <= 16 bytes; state family = states reachable by one read_bits from the start; one operation
// @oblig no panic/overflow/OOB in a checked build; from_raw_parts in refill stays inside the buffer (Kani pointer checks); num_read_bits never exceeds 8*len
// @outside buffers longer than 16 bytes; states only reachable by longer call sequences
#[kani::proof]
#[kani::unwind(10)]
pub fn c01_bits_total_skip() {
    bits_total(5, 5, true);
}

// @prop C01 C02
// @tier quick
// @unit jxl_bitstream::Bitstream::{read_bits,zero_pad_to_byte,read_bool,peek_bits,consume_bits,refill,refill_slow}
// @sym as c01_bits_total_skip; operation one of {read_bits(n<=32), zero_pad_to_byte, read_bool, peek+consume(n<=32)}
// @bound as c01_bits_total_skip
// @oblig as c01_bits_total_skip
#[kani::proof]
#[kani::unwind(10)]
pub fn c01_bits_total_raw_ops() {
    bits_total(6, 8, true);
}

// @prop C01 C02
// @tier quick
// @unit jxl_bitstream::Bitstream::read_u64
// @sym as c01_bits_total_skip; operation read_u64
// @bound as c01_bits_total_skip
// @oblig as c01_bits_total_skip
#[kani::proof]
#[kani::unwind(10)]
pub fn c01_bits_total_u64() {
    bits_total(1, 1, true);
}

// @prop C01 C02
// @tier quick
// @unit jxl_bitstream::Bitstream::{read_u32,read_f16_as_f32,read_enum}
// @sym as c01_bits_total_skip; operation one of read_u32 (two distributions incl. a 30-bit field with offset), read_f16_as_f32
// @bound as c01_bits_total_skip
// @oblig as c01_bits_total_skip
#[kani::proof]
#[kani::unwind(10)]
pub fn c01_bits_total_u32_f16() {
    bits_total(2, 4, true);
}

fn bits_prefix(lo: u8, hi: u8, with_lead: bool) {
    let buf: [u8; 12] = kani::any();
    let cut: usize = kani::any();
    kani::assume(cut <= 12);
    let mut full = Bitstream::new(&buf[..]);
    let mut pre = Bitstream::new(&buf[..cut]);
    let lead: usize = kani::any();
    kani::assume(lead <= 32);
    let mut i = if with_lead { 0 } else { 1 };
    while i < 2 {
        let (op, arg) = if i == 0 { (0u8, lead) } else { pick_op(lo, hi) };
        let (kf, vf) = if i == 0 { one_op(&mut full, 0, arg) } else { one_op_in(&mut full, lo, hi, op, arg) };
        let (kp, vp) = if i == 0 { one_op(&mut pre, 0, arg) } else { one_op_in(&mut pre, lo, hi, op, arg) };
        if kp == 0 {
            kani::cover!(kf == 2 && i == 1, "prefix EOF where full succeeds");
            return;
        }
        // prefix did not report EOF: must be identical to the full run
        assert!(kp == kf);
        assert!(vp == vf);
        assert!(pre.num_read_bits() == full.num_read_bits());
        i += 1;
    }
    kani::cover!(cut < 12, "op completes on a proper prefix");
}

// @prop C11
// @tier quick
// @unit jxl_bitstream::Bitstream::{read_bits,skip_bits,zero_pad_to_byte,read_bool,peek_bits,consume_bits} jxl_bitstream::Error::unexpected_eof
// @sym full buffer (12 bytes), cut position 0..=12; one raw operation with any argument from the initial state, run on the full buffer and on the prefix
// @bound buffer <= 12 bytes; 1 call
// @oblig on the prefix each call returns exactly what it returns on the full buffer (value and bit position) or an error classified as unexpected EOF; never a different value, never another error kind
// @outside longer buffers / sequences
#[kani::proof]
#[kani::unwind(10)]
pub fn c11_bits_prefix_raw_ops() {
    bits_prefix(5, 8, false);
}

// @prop C11
// @tier quick
// @unit jxl_bitstream::Bitstream::{read_u64,read_u32,read_f16_as_f32}
// @sym as c11_bits_prefix_raw_ops with the structured readers (U64, U32 with two distributions, F16)
// @bound buffer <= 12 bytes; 1 call
// @oblig as c11_bits_prefix_raw_ops (a header field read on a truncated buffer is EOF, never a wrong value)
#[kani::proof]
#[kani::unwind(10)]
pub fn c11_bits_prefix_structured() {
    bits_prefix(1, 4, false);
}

// @prop C14
// @tier quick
// @unit jxl_bitstream::Bitstream::read_u32 (+ U32Specifier conversions)
// @sym all four distribution entries (constant or offset+bit-count 0..=32), selector, value, 0..=7 junk bits before
// @bound none beyond the type ranges (bit counts <= 32 as the API requires)
// @oblig value returned equals value written for every selector; exactly 2+n bits consumed
#[kani::proof]
#[kani::unwind(9)]
pub fn c14_u32_roundtrip_all_distributions() {
    let mut d = [U32Dist::Val(0); 4];
    let mut i = 0;
    while i < 4 {
        if kani::any() {
            d[i] = U32Dist::Val(kani::any());
        } else {
            let n: usize = kani::any();
            kani::assume(n <= 32);
            d[i] = U32Dist::Bits(kani::any(), n);
        }
        i += 1;
    }
    let sel: usize = kani::any();
    kani::assume(sel < 4);
    let value: u32 = kani::any();
    let lead: usize = kani::any();
    kani::assume(lead <= 7);
    let mut w = BitWriter::new();
    w.put(kani::any::<u64>(), lead);
    // spec: BitsOffset value = off + u(n) computed modulo 2^32
    let ok = match d[sel] {
        U32Dist::Val(c) => {
            kani::assume(c == value);
            w.put(sel as u64, 2);
            true
        }
        U32Dist::Bits(off, n) => {
            let raw = value.wrapping_sub(off);
            kani::assume(n == 32 || (raw >> n) == 0);
            w.put(sel as u64, 2);
            w.put(raw as u64, n);
            true
        }
    };
    assert!(ok);
    let expect_bits = w.nbits;
    w.put(kani::any::<u64>(), 9); // trailing junk must not be consumed
    let bytes = w.bytes();
    let mut bs = Bitstream::new(&bytes[..w.byte_len()]);
    bs.read_bits(lead).unwrap();
    let conv = |x: U32Dist| -> jxl_bitstream::U32Specifier {
        match x {
            U32Dist::Val(c) => c.into(),
            U32Dist::Bits(off, n) => off + U(n),
        }
    };
    let got = bs.read_u32(conv(d[0]), conv(d[1]), conv(d[2]), conv(d[3])).unwrap();
    assert!(got == value);
    assert!(bs.num_read_bits() == expect_bits);
    kani::cover!(sel == 3 && matches!(d[3], U32Dist::Bits(_, 32)), "32-bit form");
    kani::cover!(matches!(d[sel], U32Dist::Val(_)), "constant form");
}

fn u64_vs_spec(lead: usize) {
    let buf: [u8; 16] = kani::any();
    let mut r = SpecReader::new(&buf, 16);
    let mut bs = Bitstream::new(&buf[..]);
    r.u(lead);
    bs.read_bits(lead).unwrap();
    let want = spec_read_u64(&mut r);
    let v = bs.read_u64().unwrap();
    assert!(!r.eof);
    assert!(v == want);
    assert!(bs.num_read_bits() == r.pos);
    kani::cover!(r.pos - lead == 73 && v >> 60 != 0, "longest 64-bit form");
    kani::cover!(r.pos - lead == 15, "12-bit form");
    kani::cover!(r.pos - lead == 10, "8-bit form");
    kani::cover!(r.pos - lead == 6, "4-bit form");
}

// @prop C14
// @tier quick
// @unit jxl_bitstream::Bitstream::read_u64
// @sym all 2^128 contents of a 16-byte buffer; read starts at bit 0
// @bound complete for U64: the longest encoding is 73 bits < 128; every selector, every continuation pattern (non-canonical encodings included)
// @oblig differential against the decoding procedure of ISO/IEC 18181-1 B.2.3 run on the same bits: same value and same number of bits consumed
#[kani::proof]
#[kani::unwind(10)]
pub fn c14_u64_matches_spec_all_encodings() {
    u64_vs_spec(0);
}

// @prop C14
// @tier quick
// @unit jxl_bitstream::Bitstream::read_u64
// @sym as c14_u64_matches_spec_all_encodings, read starts at bit 5 (unaligned)
// @bound complete for U64 at that start offset
// @oblig as c14_u64_matches_spec_all_encodings
#[kani::proof]
#[kani::unwind(10)]
pub fn c14_u64_matches_spec_unaligned() {
    u64_vs_spec(5);
}

// @prop C14
// @tier quick
// @unit jxl_bitstream::Bitstream::read_f16_as_f32
// @sym all 65536 half-float bit patterns, 0..=7 junk bits before
// @bound complete over binary16
// @oblig finite halves decode to the exactly equal binary32 (bit pattern incl. signed zero and subnormals); NaN/Inf rejected with an error; 16 bits consumed
#[kani::proof]
#[kani::unwind(9)]
pub fn c14_f16_exact_all_halves() {
    let h: u16 = kani::any();
    let lead: usize = kani::any();
    kani::assume(lead <= 7);
    let mut w = BitWriter::new();
    w.put(kani::any::<u64>(), lead);
    w.put(h as u64, 16);
    w.put(kani::any::<u64>(), 9);
    let bytes = w.bytes();
    let mut bs = Bitstream::new(&bytes[..w.byte_len()]);
    bs.read_bits(lead).unwrap();
    let r = bs.read_f16_as_f32();
    match f16_bits_to_f32_bits(h) {
        None => {
            assert!(r.is_err());
            std::mem::forget(r);
        }
        Some(bits) => {
            let v = r.unwrap();
            assert!(v.to_bits() == bits);
            assert!(bs.num_read_bits() == lead + 16);
            kani::cover!((h & 0x7c00) == 0 && (h & 0x3ff) != 0, "subnormal");
            kani::cover!(h == 0x8000, "negative zero");
        }
    }
}

#[derive(Clone, Copy, PartialEq, Eq, Debug)]
struct Small(u32);
impl TryFrom<u32> for Small {
    type Error = ();
    fn try_from(v: u32) -> Result<Self, ()> {
        if v < 19 { Ok(Small(v)) } else { Err(()) }
    }
}

// @prop C14
// @tier quick
// @unit jxl_bitstream::Bitstream::read_enum, zero_pad_to_byte
// @sym enum value 0..=81 (whole range of the Enum distribution) via every selector able to express it; lead bits 0..=7; padding bits symbolic
// @bound complete over the Enum() distribution
// @oblig value equal / out-of-range rejected; zero_pad_to_byte accepts iff all pad bits are 0 and ends on the byte boundary
#[kani::proof]
#[kani::unwind(9)]
pub fn c14_enum_and_zero_pad() {
    let v: u32 = kani::any();
    kani::assume(v <= 81);
    let sel: usize = kani::any();
    kani::assume(sel < 4);
    let lead: usize = kani::any();
    kani::assume(lead <= 7);
    let mut w = BitWriter::new();
    w.put(kani::any::<u64>(), lead);
    kani::assume(put_u32(&mut w, ENUM_DIST, sel, v));
    let after_enum = w.nbits;
    let padbits: u64 = kani::any();
    let npad = (8 - after_enum % 8) % 8;
    w.put(padbits, npad);
    w.put(kani::any::<u64>(), 8);
    let bytes = w.bytes();
    let mut bs = Bitstream::new(&bytes[..w.byte_len()]);
    bs.read_bits(lead).unwrap();
    let r = bs.read_enum::<Small>();
    if v < 19 {
        assert!(r.unwrap() == Small(v));
    } else {
        assert!(r.is_err());
        std::mem::forget(r);
    }
    assert!(bs.num_read_bits() == after_enum);
    let p = bs.zero_pad_to_byte();
    let pad_is_zero = npad == 0 || (padbits & ((1u64 << npad) - 1)) == 0;
    assert!(p.is_ok() == pad_is_zero);
    if p.is_ok() {
        assert!(bs.num_read_bits() % 8 == 0);
        assert!(bs.num_read_bits() == after_enum + npad);
    }
    std::mem::forget(p);
    kani::cover!(sel == 3 && v >= 19, "rejected enum value through selector 3");
    kani::cover!(npad == 7 && !pad_is_zero, "non-zero padding rejected");
}
