//! EXPERIMENTAL (not run by any registered check): symbolic execution of `Toc::parse` on a permuted
//! TOC does not finish. Getting through `read_clusters` needs the hash stubs below (67 s); the
//! prefix-code table construction (`Histogram::with_code_lengths`, nested `Vec<Vec<u16>>`) is then
//! not constant-folded by CBMC even with a fully concrete entropy-coded part (10 min, no end).
//! Seeded change M14 (inverse permutation not inverted) is therefore not detected.
//!
//! jxl-frame table of contents with a section permutation: C14 (what the reader returns is what
//! the writer's layout means), C10-style structure facts at the frame level.
use crate::spec::bitwriter::*;
use jxl_bitstream::Bitstream;
use jxl_frame::data::{Toc, TocGroupKind};
use jxl_frame::FrameHeader;
use jxl_image::{ImageHeader, ImageMetadata, SizeHeader};
use jxl_oxide_common::{Bundle, BundleDefault};

/// Stand-in for `RandomState::new()` (which asks the OS for entropy): fixed keys. The hash set
/// in `read_clusters` only counts distinct cluster indices; its result does not depend on keys.
pub fn fixed_random_state() -> std::hash::RandomState {
    // RandomState is two u64 keys
    unsafe { core::mem::transmute::<[u64; 2], std::hash::RandomState>([0, 0]) }
}

/// Stand-ins for SipHash: hashing is irrelevant to what a set contains.
pub fn cheap_write(_h: &mut std::hash::DefaultHasher, _bytes: &[u8]) {}
pub fn cheap_finish(_h: &std::hash::DefaultHasher) -> u64 {
    0
}

const TOC_SIZE_OFFSETS: [u32; 4] = [0, 1024, 17408, 4211712];
const TOC_SIZE_BITS: [usize; 4] = [10, 14, 22, 30];

/// A 5-entry TOC (one group, two passes) with the Lehmer code given (3 entries, prefix code with
/// 4 symbols of 2 bits), section sizes symbolic. Checks the logical <-> bitstream maps.
fn permuted_toc_case(lehmer: [u32; 3], perm: [usize; 5]) {
    let ih = ImageHeader { size: SizeHeader::default_with_context(()), metadata: ImageMetadata::default_with_context(()) };
    let mut fh = FrameHeader::default_with_context(&ih);
    fh.passes.num_passes = 2;

    let mut w = BitWriter::new();
    w.put(1, 1); // permuted_toc
    w.put(0, 1); // lz77 disabled
    w.put(1, 1); // cluster map: simple
    w.put(0, 2); //   0 bits per entry: one cluster
    w.put(1, 1); // prefix code
    w.put(15, 4); // hybrid config: split_exponent 15 (tokens are values)
    w.put(1, 1); // alphabet size > 1
    w.put(1, 4); //   n = 1
    w.put(1, 1); //   1 + 2 + 1 = 4 symbols
    w.put(1, 2); // simple prefix code
    w.put(3, 2); // 4 symbols
    w.put(0, 2);
    w.put(1, 2);
    w.put(2, 2);
    w.put(3, 2);
    w.put(0, 1); // all of length 2
    // 2-bit codes are read LSB-first from the stream but assigned MSB-first: symbol s has the
    // bit-reversed code
    let code = |s: u32| -> u64 { (((s & 1) << 1) | (s >> 1)) as u64 };
    w.put(code(3), 2); // end = 3
    w.put(code(lehmer[0]), 2);
    w.put(code(lehmer[1]), 2);
    w.put(code(lehmer[2]), 2);
    w.pad_to_byte();
    // the entropy-coded part stays concrete for the symbolic executor: the symbolic size fields
    // go through a second writer and the two byte strings are concatenated
    let head_len = w.byte_len();
    let head = w.bytes_plain();
    let mut w = BitWriter::new();
    // The reader refills 8 bytes ahead, and the symbolic executor cannot see that the low bits of
    // a word whose high bytes are symbolic are constant. So the first four sizes are concrete
    // 32-bit fields (selector 3) and only the last entry, 16 bytes further on, is symbolic: the
    // entropy-coded permutation is then parsed with concrete control flow.
    let mut sizes = [4211712 + 1000, 4211712 + 77, 4211712 + 123456, 4211712 + 5, 0];
    let mut k = 0;
    while k < 4 {
        w.put(3, 2);
        w.put((sizes[k] - 4211712) as u64, 30);
        k += 1;
    }
    let mid = w.bytes_plain(); // 16 concrete bytes
    let mut w = BitWriter::new();
    {
        let sel: u8 = kani::any();
        kani::assume(sel < 4);
        let v: u32 = kani::any();
        kani::assume(v < (1u32 << TOC_SIZE_BITS[sel as usize]));
        w.put(sel as u64, 2);
        w.put(v as u64, TOC_SIZE_BITS[sel as usize]);
        sizes[4] = TOC_SIZE_OFFSETS[sel as usize] + v;
    }
    w.pad_to_byte();
    let base = head_len + 16 + w.byte_len();
    let tail = w.bytes();
    let mut bytes = [0u8; 40];
    let mut j = 0;
    while j < 40 {
        bytes[j] = if j < head_len {
            head[j]
        } else if j < head_len + 16 {
            mid[j - head_len]
        } else if j - head_len - 16 < 8 {
            tail[j - head_len - 16]
        } else {
            0
        };
        j += 1;
    }

    let mut bs = Bitstream::new(&bytes[..]);
    let toc = Toc::parse(&mut bs, &fh).unwrap();
    assert!(bs.num_read_bits() == base * 8);
    assert!(!toc.is_single_entry());
    let total = sizes[0] as usize + sizes[1] as usize + sizes[2] as usize + sizes[3] as usize + sizes[4] as usize;
    assert!(toc.total_byte_size() == total);

    let kinds = [
        TocGroupKind::LfGlobal,
        TocGroupKind::LfGroup(0),
        TocGroupKind::HfGlobal,
        TocGroupKind::GroupPass { pass_idx: 0, group_idx: 0 },
        TocGroupKind::GroupPass { pass_idx: 1, group_idx: 0 },
    ];
    // logical section i is the perm[i]-th section of the byte stream
    let mut i = 0;
    while i < 5 {
        assert!(toc.group_index_bitstream_order(kinds[i]) == perm[i]);
        i += 1;
    }
    // walking in bitstream order: the k-th section starts where the (k-1)-th ends, has the k-th
    // size of the table, and is the logical section i with perm[i] == k
    let mut want_offset = base;
    let mut k = 0;
    let mut it = toc.iter_bitstream_order();
    while k < 5 {
        let g = it.next().unwrap();
        assert!(g.offset == want_offset);
        assert!(g.size == sizes[k]);
        let mut i = 0;
        while i < 5 {
            if perm[i] == k {
                assert!(g.kind == kinds[i]);
            }
            i += 1;
        }
        want_offset += sizes[k] as usize;
        k += 1;
    }
    assert!(it.next().is_none());
    assert!(toc.bookmark() == base);
    core::mem::forget(it);
    core::mem::forget(toc);
    core::mem::forget(fh);
    core::mem::forget(ih);
}

// @prop C14 C10
// @tier experimental
// @unit jxl_frame::data::Toc::{parse,group_index_bitstream_order,iter_bitstream_order,bookmark,total_byte_size} with jxl_coding::{Decoder::parse,read_permutation} underneath
// @sym the size of the last section in stream order (any of the four U32 forms, any value; the other four sizes are concrete 32-bit fields because the symbolic executor needs the 8-byte read-ahead of the entropy-coded part to be concrete); the entropy-coded permutation header is concrete: Lehmer code [3,0,0] = permutation [3,0,1,2,4], a 4-cycle (not its own inverse)
// @bound 5 TOC entries (one group, two passes); one permutation per harness
// @assume stubs: RandomState::new returns fixed keys (the real one calls the OS); SipHash write/finish replaced by a constant hash (the set in read_clusters then still holds exactly the distinct cluster indices, by equality)
// @oblig the parsed TOC means what the layout says: logical section i is the permutation[i]-th section of the stream; sections in stream order are contiguous from the end of the TOC with the listed sizes and carry the kind of the logical section mapped there; total size is the sum; exactly the TOC's bits are consumed
#[kani::proof]
#[kani::unwind(41)]
#[kani::stub(std::hash::RandomState::new, fixed_random_state)]
#[kani::stub(<std::hash::DefaultHasher as core::hash::Hasher>::write, cheap_write)]
#[kani::stub(<std::hash::DefaultHasher as core::hash::Hasher>::finish, cheap_finish)]
pub fn c14_permuted_toc_maps_sections_4cycle() {
    permuted_toc_case([3, 0, 0], [3, 0, 1, 2, 4]);
    kani::cover!(true, "parsed and compared");
}

// @prop C14 C10
// @tier experimental
// @unit as c14_permuted_toc_maps_sections_4cycle
// @sym as c14_permuted_toc_maps_sections_4cycle with Lehmer code [1,2,0] = permutation [1,3,0,2,4]
// @bound 5 TOC entries; one permutation per harness
// @assume stubs as c14_permuted_toc_maps_sections_4cycle
// @oblig as c14_permuted_toc_maps_sections_4cycle
#[kani::proof]
#[kani::unwind(41)]
#[kani::stub(std::hash::RandomState::new, fixed_random_state)]
#[kani::stub(<std::hash::DefaultHasher as core::hash::Hasher>::write, cheap_write)]
#[kani::stub(<std::hash::DefaultHasher as core::hash::Hasher>::finish, cheap_finish)]
pub fn c14_permuted_toc_maps_sections_other() {
    permuted_toc_case([1, 2, 0], [1, 3, 0, 2, 4]);
    kani::cover!(true, "parsed and compared");
}

