//! jxl-jbr: C17 (JPEG reconstruction units: entropy-coded bit packing, canonical Huffman codes,
//! hostile reconstruction headers), C01.
use jxl_jbr::verif as jv;

/// ITU-T T.81 F.1.2.3 / B.1.1.5: entropy-coded bits are packed MSB first; after every 0xFF byte
/// a 0x00 byte is stuffed. Reference packer over at most 128 bits.
fn spec_pack(bits: u128, nbits: usize, out: &mut [u8; 34]) -> usize {
    let nbytes = (nbits + 7) / 8;
    let mut n = 0;
    let mut i = 0;
    while i < nbytes {
        let b = (bits >> (120 - 8 * i)) as u8;
        out[n] = b;
        n += 1;
        if b == 0xff {
            out[n] = 0;
            n += 1;
        }
        i += 1;
    }
    n
}

fn no_ff(v: u64) -> bool {
    let mut i = 0;
    while i < 8 {
        if (v >> (8 * i)) as u8 == 0xff {
            return false;
        }
        i += 1;
    }
    true
}

// @prop C17
// @tier quick
// @unit jxl_jbr::bit_writer::BitWriter::{new,write_huffman,write_raw,padding_bits,finalize,flush_buf,emit_byte}
// @sym a 13-bit Huffman code, 11 raw bits, a 40-bit raw run (crosses the 64-bit buffer: flush) and 3 more bits, all bit values symbolic; then padding with ones
// @bound write lengths concrete (13, 11, 40, 3, pad 5), values symbolic; the first 8 output bytes are assumed free of 0xFF (stuffing is the sibling harness), the last byte may be 0xFF
// @oblig the bytes produced are exactly the MSB-first concatenation of the written bit strings (ITU-T T.81), 0x00 stuffed after a final 0xFF; padding_bits() is the distance to the byte boundary
#[kani::proof]
#[kani::unwind(10)]
pub fn c17_bit_writer_msb_first_across_flush() {
    let mut w = jv::BitWriter::new();
    let c1: u64 = kani::any::<u64>() >> 51 << 51; // 13 bits, left-aligned
    let v2: u64 = kani::any::<u64>() & 0x7ff;
    let v3: u64 = kani::any::<u64>() & ((1 << 40) - 1);
    let v4: u64 = kani::any::<u64>() & 7;
    let acc: u128 = ((c1 >> 51) as u128) << 115 | (v2 as u128) << 104 | (v3 as u128) << 64 | (v4 as u128) << 61 | 0x1f << 56;
    kani::assume(no_ff((acc >> 64) as u64));
    w.write_huffman(c1, 13);
    w.write_raw(v2, 11);
    assert!(w.padding_bits() == 0);
    w.write_raw(v3, 40);
    w.write_raw(v4, 3);
    let pad = w.padding_bits();
    assert!(pad == 5);
    w.write_raw(0x1f, 5);
    let out = w.finalize();
    let mut want = [0u8; 34];
    let wn = spec_pack(acc, 72, &mut want);
    assert!(out.len() == wn);
    let i: usize = kani::any();
    kani::assume(i < wn);
    assert!(out[i] == want[i]);
    kani::cover!(wn == 10, "final byte 0xFF is stuffed");
    kani::cover!(wn == 9, "no stuffing");
    core::mem::forget(out);
}

// @prop C17
// @tier quick
// @unit jxl_jbr::bit_writer::BitWriter::{write_huffman,write_raw,finalize,emit_byte}
// @sym a 9-bit Huffman code and 15 raw bits (24 bits, no flush), all values symbolic incl. 0xFF bytes
// @bound 3 output bytes before stuffing
// @oblig every 0xFF byte of the entropy-coded data is followed by a stuffed 0x00 and nothing else is inserted
#[kani::proof]
#[kani::unwind(10)]
pub fn c17_bit_writer_byte_stuffing() {
    let mut w = jv::BitWriter::new();
    let c1: u64 = kani::any::<u64>() >> 55 << 55;
    let v2: u64 = kani::any::<u64>() & 0x7fff;
    w.write_huffman(c1, 9);
    w.write_raw(v2, 15);
    let acc: u128 = ((c1 >> 55) as u128) << 119 | (v2 as u128) << 104;
    let out = w.finalize();
    let mut want = [0u8; 34];
    let wn = spec_pack(acc, 24, &mut want);
    assert!(out.len() == wn);
    let i: usize = kani::any();
    kani::assume(i < wn);
    assert!(out[i] == want[i]);
    kani::cover!(wn == 6, "three 0xFF bytes, all stuffed");
    kani::cover!(wn == 4 && want[0] != 0xff && want[2] != 0xff, "0xFF in the middle byte");
    core::mem::forget(out);
}

// @prop C17
// @tier quick
// @unit jxl_jbr::bit_writer::BitWriter::{write_huffman,write_raw,flush_buf,emit_byte,finalize} - 0xFF bytes inside a completed 64-bit word
// @sym as c17_bit_writer_msb_first_across_flush (13 + 11 + 40 + 3 + 5 bits, all bit values symbolic) without the assumption that the first eight bytes are free of 0xFF
// @bound write lengths concrete, 72 bits; every placement of 0xFF bytes in the flushed word and in the carried-over byte
// @assume stubs: Vec::push / extend_from_slice write in place and assert a reserved capacity of 64 bytes suffices; BitWriter::new reserves it
// @oblig the bytes produced are the MSB-first concatenation with 0x00 stuffed after every 0xFF byte, whichever word (the flushed one or the carried-over one) holds it
#[kani::proof]
#[kani::unwind(20)]
#[kani::stub(std::vec::Vec::push, jbr_push_stub)]
#[kani::stub(std::vec::Vec::extend_from_slice, jbr_extend_stub)]
#[kani::stub(jxl_jbr::verif::BitWriter::new, jbr_bit_writer_new)]
pub fn c17_bit_writer_stuffing_across_flush() {
    let mut w = jv::BitWriter::new();
    let c1: u64 = kani::any::<u64>() >> 51 << 51; // 13 bits, left-aligned
    let v2: u64 = kani::any::<u64>() & 0x7ff;
    let v3: u64 = kani::any::<u64>() & ((1 << 40) - 1);
    let v4: u64 = kani::any::<u64>() & 7;
    let acc: u128 = ((c1 >> 51) as u128) << 115 | (v2 as u128) << 104 | (v3 as u128) << 64 | (v4 as u128) << 61 | 0x1f << 56;
    w.write_huffman(c1, 13);
    w.write_raw(v2, 11);
    w.write_raw(v3, 40);
    w.write_raw(v4, 3);
    w.write_raw(0x1f, 5);
    let out = w.finalize();
    let mut want = [0u8; 34];
    let wn = spec_pack(acc, 72, &mut want);
    assert!(out.len() == wn);
    let i: usize = kani::any();
    kani::assume(i < wn);
    assert!(out[i] == want[i]);
    kani::cover!(wn == 10 && want[8] != 0xff && want[9] != 0, "one 0xFF in the flushed word, none carried over");
    kani::cover!(wn == 18, "nine 0xFF bytes");
    core::mem::forget(out);
}

// @prop C17
// @tier quick
// @unit jxl_jbr::huffman::{HuffmanCode::build,BuiltHuffmanTable::lookup}
// @sym a table with 2 codes of length 2, 1 code of length 3 and the sentinel of length 4 (counts fixed), the three symbol values and the looked-up symbol symbolic
// @bound one table shape (4 entries incl. sentinel); values any distinct bytes
// @oblig codes are the canonical assignment of ITU-T T.81 Annex C (00, 01, 100; the sentinel gets no entry), left-aligned with their length; a symbol that is not in the table is an error, never a panic
#[kani::proof]
#[kani::unwind(258)]
pub fn c17_huffman_canonical_codes() {
    let (a, b, c, s): (u8, u8, u8, u8) = (kani::any(), kani::any(), kani::any(), kani::any());
    kani::assume(a != b && a != c && b != c && s != a && s != b && s != c);
    let mut counts = [0u8; 17];
    counts[2] = 2;
    counts[3] = 1;
    counts[4] = 1; // sentinel
    let q: u8 = kani::any();
    let r = jv::huffman_build_and_lookup(counts, vec![a, b, c, s], q);
    if q == a {
        assert!(r == Ok((2, 0b00u64 << 62)));
    } else if q == b {
        assert!(r == Ok((2, 0b01u64 << 62)));
    } else if q == c {
        assert!(r == Ok((3, 0b100u64 << 61)));
    } else {
        assert!(r.is_err());
    }
    kani::cover!(q == c, "length-3 code looked up");
    kani::cover!(q == s, "sentinel has no code");
}

// @prop C17
// @tier quick
// @unit jxl_jbr::huffman::{HuffmanCode::build,BuiltHuffmanTable::lookup}
// @sym tables of 1, 2 and 3 values (sentinel included) whose 17 length counts are symbolic, the values and the looked-up symbol symbolic
// @bound at most 3 values; counts satisfy what HuffmanCode::parse guarantees (counts[0] == 0 and the counts add up to the number of values >= 1: HuffmanCode::parse rejects the other records before it reads any value and then collects exactly sum(counts) values - by reading; the harness that would decide it, c17_huffman_record_parse_then_build_total, does not finish and is kept experimental)
// @assume the validity predicate above
// @oblig building the table of a degenerate but accepted code (only the sentinel; one or two symbols of any lengths, incl. over-subscribed codes) returns, never panics (finding F08: a table that holds only the sentinel indexed an empty vector)
#[kani::proof]
#[kani::unwind(258)]
pub fn c17_huffman_build_total_small_tables() {
    let counts: [u8; 17] = kani::any();
    kani::assume(counts[0] == 0);
    let mut sum = 0u32;
    let mut i = 0;
    while i < 17 {
        sum += counts[i] as u32;
        i += 1;
    }
    let q: u8 = kani::any();
    let (a, b, c): (u8, u8, u8) = (kani::any(), kani::any(), kani::any());
    let which: u8 = kani::any();
    let r = if which == 0 {
        kani::assume(sum == 1);
        jv::huffman_build_and_lookup(counts, vec![a], q)
    } else if which == 1 {
        kani::assume(sum == 2);
        jv::huffman_build_and_lookup(counts, vec![a, b], q)
    } else {
        kani::assume(sum == 3);
        jv::huffman_build_and_lookup(counts, vec![a, b, c], q)
    };
    if which == 0 {
        assert!(r.is_err()); // the sentinel has no code
    }
    if which == 1 && q == a {
        assert!(matches!(r, Ok((_, 0)))); // the first code is all zeros
    }
    kani::cover!(which == 0, "sentinel-only table");
    kani::cover!(which == 2 && counts[1] == 3, "over-subscribed lengths");
    kani::cover!(r.is_ok(), "a code was found");
}

// @prop C17
// @tier experimental
// @note three attempts, none finishes within 4 minutes: (1) value fields symbolic, (2) count selectors enumerated as constants but value fields symbolic - the symbolic bytes lie inside the bit reader's 8-byte read-ahead, the counts are no longer folded and the value-collecting loop is unwound to the global bound -, (3) only the first byte symbolic with a per-loop bound of 4 on the collecting loop: Bitstream::refill_slow is then unwound 2300+ times. Seeded change M38 (validity check weakened) is therefore missed by the quick tier
// @unwindset Range<u32> as std::iter::Iterator>::try_fold 0 4
// @unit jxl_jbr::huffman::{HuffmanCode::parse,HuffmanCode::build,BuiltHuffmanTable::lookup}
// @sym one Huffman code record: the four flag bits and the selectors of counts[0] and counts[1] (each 0 or 1) symbolic, counts[2..] = 0, value fields zero; the looked-up symbol symbolic
// @bound records with at most 2 values (the value-collecting loop is bounded to 3 iterations by a per-loop unwinding bound, guarded by the unwinding assertion); value fields concrete (symbolic ones inside the bit reader's read-ahead stop CBMC from folding the counts: two runs without a verdict, see DESIGN 8.9)
// @assume count selectors in {0,1}
// @oblig the parser's side of the predicate c17_huffman_build_total_small_tables assumes: a record is accepted iff counts[0] == 0 and the counts are not all zero; an accepted record has as many values as its counts add up to; its table builds and looks up without panic (finding F08)
#[kani::proof]
#[kani::unwind(258)]
pub fn c17_huffman_record_parse_then_build_total() {
    let b0: u8 = kani::any();
    kani::assume(b0 & 0b1010_0000 == 0);
    let (sel0, sel1) = ((b0 >> 4) & 1, (b0 >> 6) & 1);
    let bytes: [u8; 16] = [b0, 0, 0, 0, 0, 0, 0, 0, 0, 0, 0, 0, 0, 0, 0, 0];
    let q: u8 = kani::any();
    let mut bs = jxl_bitstream::Bitstream::new(&bytes[..]);
    match jv::huffman_parse_build_and_lookup(&mut bs, q) {
        Ok(_) => {
            // a sentinel-only table has no code for any symbol
            assert!(false);
        }
        Err(true) => {
            assert!(sel0 == 1 || sel1 == 0);
        }
        Err(false) => {
            assert!(sel0 == 0 && sel1 == 1);
        }
    }
    kani::cover!(sel0 == 1 && sel1 == 1, "zero-length code next to a real one: rejected");
    kani::cover!(sel0 == 0 && sel1 == 1, "sentinel-only record accepted and built");
    kani::cover!(sel0 == 0 && sel1 == 0, "empty record rejected");
}

// @prop C17 C01
// @tier quick
// @unit jxl_jbr::{AppMarker::parse,JpegBitstreamHeader::{expected_icc_len,expected_exif_len,expected_xmp_len}}
// @sym 5 symbolic bytes holding two APPn marker records (type selector + 16-bit length each), parsed with the real record parser
// @bound two APP markers; the other header parts are empty (they do not enter these queries)
// @oblig hostile reconstruction data is either rejected when parsed or yields a header whose size queries (used by JpegBitstreamReconstructor::new) return without panic; accepted records have a type the writer can reconstruct (0..=3)
#[kani::proof]
#[kani::unwind(10)]
pub fn c17_jbrd_app_marker_size_queries_total() {
    let bytes: [u8; 5] = kani::any();
    let mut bs = jxl_bitstream::Bitstream::new(&bytes[..]);
    match jv::header_with_app_markers(&mut bs, 2) {
        Err(e) => {
            kani::cover!(true, "hostile record rejected");
            core::mem::forget(e);
        }
        Ok(h) => {
            let a = h.expected_icc_len();
            let b = h.expected_exif_len();
            let c = h.expected_xmp_len();
            kani::cover!(a > 0, "ICC chunk accepted");
            kani::cover!(b > 0 || c > 0, "exif or xmp accepted");
            core::mem::forget(h);
        }
    }
}

const AC_LEN: usize = 18;

/// Stand-ins so that the output vectors never reallocate under symbolic lengths (DESIGN 8.8).
pub fn jbr_push_stub<T, A: std::alloc::Allocator>(v: &mut Vec<T, A>, value: T) {
    let len = v.len();
    assert!(len < v.capacity(), "stub: push within the reserved capacity");
    unsafe {
        core::ptr::write(v.as_mut_ptr().add(len), value);
        v.set_len(len + 1);
    }
}
pub fn jbr_extend_stub<T: Clone, A: std::alloc::Allocator>(v: &mut Vec<T, A>, other: &[T]) {
    let mut i = 0;
    while i < other.len() {
        jbr_push_stub(v, other[i].clone());
        i += 1;
    }
}
pub fn jbr_bit_writer_new() -> jv::BitWriter {
    jv::BitWriter::verif_with_capacity(64)
}

/// ITU-T T.81 F.1.2 sequential entropy coding of one block (DC difference + AC run/size coding),
/// with the fixed tables of the harness: DC category c has the 4-bit code c, AC symbols EOB, ZRL and
/// (run r, size 1) have the 5-bit codes 0, 1 and 2 + r. Returns the bit string left-aligned in 128 bits and its length.
fn spec_encode_block(prev_dc: i16, dc: i16, ac: &[i16; AC_LEN]) -> (u128, usize) {
    let mut acc: u128 = 0;
    let mut n: usize = 0;
    let mut put = |v: u32, len: usize| {
        if len > 0 {
            acc |= ((v as u128) & ((1u128 << len) - 1)) << (128 - n - len);
            n += len;
        }
    };
    let size_and_bits = |v: i32| -> (usize, u32) {
        // F.1.2.1.1: SSSS = number of bits of |v|; negative values are coded as v - 1 (low bits)
        let a = v.unsigned_abs();
        let ssss = (32 - a.leading_zeros()) as usize;
        let bits = if v < 0 { (v - 1) as u32 } else { v as u32 };
        (ssss, bits)
    };
    let diff = dc as i32 - prev_dc as i32;
    let (ssss, bits) = size_and_bits(diff);
    put(ssss as u32, 4);
    put(bits, ssss);
    let mut r: u32 = 0;
    let mut k = 0;
    while k < AC_LEN {
        if ac[k] == 0 {
            r += 1;
        } else {
            while r > 15 {
                put(1, 5); // ZRL
                r -= 16;
            }
            let (ssss, bits) = size_and_bits(ac[k] as i32);
            // ssss == 1 for the coefficients of this harness (+-1)
            put(2 + r, 5);
            put(bits, ssss);
            r = 0;
        }
        k += 1;
    }
    if r > 0 {
        put(0, 5); // EOB
    }
    (acc, n)
}

fn block_case(p1: Option<(usize, i16)>, p2: Option<(usize, i16)>) {
    let prev_dc = kani::any::<i16>();
    let dc = kani::any::<i16>();
    kani::assume(prev_dc > -1024 && prev_dc < 1024 && dc > -1024 && dc < 1024);
    let mut ac = [0i16; AC_LEN];
    // non-zero coefficients (+-1, sign symbolic) at the given positions
    if let Some((p, v)) = p1 {
        ac[p] = v;
    }
    if let Some((p, v)) = p2 {
        ac[p] = v;
    }
    let mut dc_counts = [0u8; 17];
    dc_counts[4] = 13;
    let dc_values: Vec<u8> = vec![0, 1, 2, 3, 4, 5, 6, 7, 8, 9, 10, 11, 255];
    let mut ac_counts = [0u8; 17];
    ac_counts[5] = 19; // 18 symbols + sentinel
    let ac_values: Vec<u8> = vec![
        0x00, 0xf0, 0x01, 0x11, 0x21, 0x31, 0x41, 0x51, 0x61, 0x71, 0x81, 0x91, 0xa1, 0xb1, 0xc1, 0xd1, 0xe1, 0xf1, 0xff,
    ];
    let out = jv::encode_sequential_block(dc_counts, dc_values, ac_counts, ac_values, prev_dc, dc, &ac[..], None).unwrap();
    let (mut acc, mut n) = spec_encode_block(prev_dc, dc, &ac);
    let pad = (8 - n % 8) % 8;
    if pad > 0 {
        acc |= ((1u128 << pad) - 1) << (128 - n - pad);
        n += pad;
    }
    let mut want = [0u8; 34];
    let wn = spec_pack(acc, n, &mut want);
    assert!(out.len() == wn);
    let i: usize = kani::any();
    kani::assume(i < wn);
    assert!(out[i] == want[i]);
    core::mem::forget(out);
}

// @prop C17
// @tier quick
// @unit jxl_jbr::reconstruct::scan::{process_sequential,ScanState::{update_dc_pred,flush_bit_writer}} jxl_jbr::huffman::HuffmanCode::build jxl_jbr::bit_writer::BitWriter
// @sym DC value and predictor (|v| < 1024); the AC part is concrete per case (symbolic AC positions or signs make the slice scan of process_sequential intractable): the layout of the 18-coefficient block is one of seven enumerated ones, one harness each; this one: one coefficient after a zero run of exactly 16 (one ZRL)
// @bound one block of 18 AC coefficients of magnitude <= 1, 1 layout (7 over the sibling harnesses), one table pair (DC category c -> 4-bit code c; AC symbols EOB, ZRL, (run r, size 1) -> 5-bit codes); sequential (baseline) scans only
// @oblig the bytes written are the T.81 F.1.2 coding of the block: DC difference category and bits, (run,size) symbols with a ZRL for every 16 zeros before a non-zero coefficient, EOB iff the block ends with zeros, padded with one bits and 0xFF-stuffed
// @assume stubs: Vec::push / extend_from_slice write in place and assert a reserved capacity of 64 bytes suffices; BitWriter::new reserves it
// @replay_search i16:-1023..1023:341 i16:-1023..1023:3 usize:0..33
// @heavy yes
// @outside progressive scans, restart intervals, extra_zero_runs fix-ups, larger coefficients and denser blocks
#[kani::proof]
#[kani::unwind(21)]
#[kani::stub(std::vec::Vec::push, jbr_push_stub)]
#[kani::stub(std::vec::Vec::extend_from_slice, jbr_extend_stub)]
#[kani::stub(jxl_jbr::verif::BitWriter::new, jbr_bit_writer_new)]
pub fn c17_sequential_block_zero_run_16() {
    block_case(Some((16, 1)), None);
    kani::cover!(true, "layout executed");
}

// @prop C17
// @tier thorough
// @unit jxl_jbr::reconstruct::scan::{process_sequential,ScanState::{update_dc_pred,flush_bit_writer}} jxl_jbr::huffman::HuffmanCode::build jxl_jbr::bit_writer::BitWriter
// @sym DC value and predictor (|v| < 1024); the AC part is concrete per case (symbolic AC positions or signs make the slice scan of process_sequential intractable): the layout of the 18-coefficient block is one of seven enumerated ones, one harness each; this one: coefficients at 0 and 17: a zero run of exactly 16 between two coefficients
// @bound one block of 18 AC coefficients of magnitude <= 1, 1 layout (7 over the sibling harnesses), one table pair (DC category c -> 4-bit code c; AC symbols EOB, ZRL, (run r, size 1) -> 5-bit codes); sequential (baseline) scans only
// @oblig the bytes written are the T.81 F.1.2 coding of the block: DC difference category and bits, (run,size) symbols with a ZRL for every 16 zeros before a non-zero coefficient, EOB iff the block ends with zeros, padded with one bits and 0xFF-stuffed
// @assume stubs: Vec::push / extend_from_slice write in place and assert a reserved capacity of 64 bytes suffices; BitWriter::new reserves it
// @replay_search i16:-1023..1023:341 i16:-1023..1023:3 usize:0..33
// @heavy yes
// @outside progressive scans, restart intervals, extra_zero_runs fix-ups, larger coefficients and denser blocks
#[kani::proof]
#[kani::unwind(21)]
#[kani::stub(std::vec::Vec::push, jbr_push_stub)]
#[kani::stub(std::vec::Vec::extend_from_slice, jbr_extend_stub)]
#[kani::stub(jxl_jbr::verif::BitWriter::new, jbr_bit_writer_new)]
pub fn c17_sequential_block_zero_run_16_mid() {
    block_case(Some((0, -1)), Some((17, 1)));
    kani::cover!(true, "layout executed");
}

// @prop C17
// @tier thorough
// @unit jxl_jbr::reconstruct::scan::{process_sequential,ScanState::{update_dc_pred,flush_bit_writer}} jxl_jbr::huffman::HuffmanCode::build jxl_jbr::bit_writer::BitWriter
// @sym DC value and predictor (|v| < 1024); the AC part is concrete per case (symbolic AC positions or signs make the slice scan of process_sequential intractable): the layout of the 18-coefficient block is one of seven enumerated ones, one harness each; this one: all-zero AC part (EOB only)
// @bound one block of 18 AC coefficients of magnitude <= 1, 1 layout (7 over the sibling harnesses), one table pair (DC category c -> 4-bit code c; AC symbols EOB, ZRL, (run r, size 1) -> 5-bit codes); sequential (baseline) scans only
// @oblig the bytes written are the T.81 F.1.2 coding of the block: DC difference category and bits, (run,size) symbols with a ZRL for every 16 zeros before a non-zero coefficient, EOB iff the block ends with zeros, padded with one bits and 0xFF-stuffed
// @assume stubs: Vec::push / extend_from_slice write in place and assert a reserved capacity of 64 bytes suffices; BitWriter::new reserves it
// @replay_search i16:-1023..1023:341 i16:-1023..1023:3 usize:0..33
// @heavy yes
// @outside progressive scans, restart intervals, extra_zero_runs fix-ups, larger coefficients and denser blocks
#[kani::proof]
#[kani::unwind(21)]
#[kani::stub(std::vec::Vec::push, jbr_push_stub)]
#[kani::stub(std::vec::Vec::extend_from_slice, jbr_extend_stub)]
#[kani::stub(jxl_jbr::verif::BitWriter::new, jbr_bit_writer_new)]
pub fn c17_sequential_block_all_zero() {
    block_case(None, None);
    kani::cover!(true, "layout executed");
}

// @prop C17
// @tier thorough
// @unit jxl_jbr::reconstruct::scan::{process_sequential,ScanState::{update_dc_pred,flush_bit_writer}} jxl_jbr::huffman::HuffmanCode::build jxl_jbr::bit_writer::BitWriter
// @sym DC value and predictor (|v| < 1024); the AC part is concrete per case (symbolic AC positions or signs make the slice scan of process_sequential intractable): the layout of the 18-coefficient block is one of seven enumerated ones, one harness each; this one: one coefficient at position 0
// @bound one block of 18 AC coefficients of magnitude <= 1, 1 layout (7 over the sibling harnesses), one table pair (DC category c -> 4-bit code c; AC symbols EOB, ZRL, (run r, size 1) -> 5-bit codes); sequential (baseline) scans only
// @oblig the bytes written are the T.81 F.1.2 coding of the block: DC difference category and bits, (run,size) symbols with a ZRL for every 16 zeros before a non-zero coefficient, EOB iff the block ends with zeros, padded with one bits and 0xFF-stuffed
// @assume stubs: Vec::push / extend_from_slice write in place and assert a reserved capacity of 64 bytes suffices; BitWriter::new reserves it
// @replay_search i16:-1023..1023:341 i16:-1023..1023:3 usize:0..33
// @heavy yes
// @outside progressive scans, restart intervals, extra_zero_runs fix-ups, larger coefficients and denser blocks
#[kani::proof]
#[kani::unwind(21)]
#[kani::stub(std::vec::Vec::push, jbr_push_stub)]
#[kani::stub(std::vec::Vec::extend_from_slice, jbr_extend_stub)]
#[kani::stub(jxl_jbr::verif::BitWriter::new, jbr_bit_writer_new)]
pub fn c17_sequential_block_first() {
    block_case(Some((0, 1)), None);
    kani::cover!(true, "layout executed");
}

// @prop C17
// @tier thorough
// @unit jxl_jbr::reconstruct::scan::{process_sequential,ScanState::{update_dc_pred,flush_bit_writer}} jxl_jbr::huffman::HuffmanCode::build jxl_jbr::bit_writer::BitWriter
// @sym DC value and predictor (|v| < 1024); the AC part is concrete per case (symbolic AC positions or signs make the slice scan of process_sequential intractable): the layout of the 18-coefficient block is one of seven enumerated ones, one harness each; this one: one coefficient after 15 zeros (no ZRL)
// @bound one block of 18 AC coefficients of magnitude <= 1, 1 layout (7 over the sibling harnesses), one table pair (DC category c -> 4-bit code c; AC symbols EOB, ZRL, (run r, size 1) -> 5-bit codes); sequential (baseline) scans only
// @oblig the bytes written are the T.81 F.1.2 coding of the block: DC difference category and bits, (run,size) symbols with a ZRL for every 16 zeros before a non-zero coefficient, EOB iff the block ends with zeros, padded with one bits and 0xFF-stuffed
// @assume stubs: Vec::push / extend_from_slice write in place and assert a reserved capacity of 64 bytes suffices; BitWriter::new reserves it
// @replay_search i16:-1023..1023:341 i16:-1023..1023:3 usize:0..33
// @heavy yes
// @outside progressive scans, restart intervals, extra_zero_runs fix-ups, larger coefficients and denser blocks
#[kani::proof]
#[kani::unwind(21)]
#[kani::stub(std::vec::Vec::push, jbr_push_stub)]
#[kani::stub(std::vec::Vec::extend_from_slice, jbr_extend_stub)]
#[kani::stub(jxl_jbr::verif::BitWriter::new, jbr_bit_writer_new)]
pub fn c17_sequential_block_zero_run_15() {
    block_case(Some((15, -1)), None);
    kani::cover!(true, "layout executed");
}

// @prop C17
// @tier thorough
// @unit jxl_jbr::reconstruct::scan::{process_sequential,ScanState::{update_dc_pred,flush_bit_writer}} jxl_jbr::huffman::HuffmanCode::build jxl_jbr::bit_writer::BitWriter
// @sym DC value and predictor (|v| < 1024); the AC part is concrete per case (symbolic AC positions or signs make the slice scan of process_sequential intractable): the layout of the 18-coefficient block is one of seven enumerated ones, one harness each; this one: one coefficient after 17 zeros (ZRL + run 1), last position: no EOB
// @bound one block of 18 AC coefficients of magnitude <= 1, 1 layout (7 over the sibling harnesses), one table pair (DC category c -> 4-bit code c; AC symbols EOB, ZRL, (run r, size 1) -> 5-bit codes); sequential (baseline) scans only
// @oblig the bytes written are the T.81 F.1.2 coding of the block: DC difference category and bits, (run,size) symbols with a ZRL for every 16 zeros before a non-zero coefficient, EOB iff the block ends with zeros, padded with one bits and 0xFF-stuffed
// @assume stubs: Vec::push / extend_from_slice write in place and assert a reserved capacity of 64 bytes suffices; BitWriter::new reserves it
// @replay_search i16:-1023..1023:341 i16:-1023..1023:3 usize:0..33
// @heavy yes
// @outside progressive scans, restart intervals, extra_zero_runs fix-ups, larger coefficients and denser blocks
#[kani::proof]
#[kani::unwind(21)]
#[kani::stub(std::vec::Vec::push, jbr_push_stub)]
#[kani::stub(std::vec::Vec::extend_from_slice, jbr_extend_stub)]
#[kani::stub(jxl_jbr::verif::BitWriter::new, jbr_bit_writer_new)]
pub fn c17_sequential_block_zero_run_17() {
    block_case(Some((17, -1)), None);
    kani::cover!(true, "layout executed");
}

// @prop C17
// @tier thorough
// @unit jxl_jbr::reconstruct::scan::{process_sequential,ScanState::{update_dc_pred,flush_bit_writer}} jxl_jbr::huffman::HuffmanCode::build jxl_jbr::bit_writer::BitWriter
// @sym DC value and predictor (|v| < 1024); the AC part is concrete per case (symbolic AC positions or signs make the slice scan of process_sequential intractable): the layout of the 18-coefficient block is one of seven enumerated ones, one harness each; this one: coefficients at 1 and 17: run of 15 in the middle
// @bound one block of 18 AC coefficients of magnitude <= 1, 1 layout (7 over the sibling harnesses), one table pair (DC category c -> 4-bit code c; AC symbols EOB, ZRL, (run r, size 1) -> 5-bit codes); sequential (baseline) scans only
// @oblig the bytes written are the T.81 F.1.2 coding of the block: DC difference category and bits, (run,size) symbols with a ZRL for every 16 zeros before a non-zero coefficient, EOB iff the block ends with zeros, padded with one bits and 0xFF-stuffed
// @assume stubs: Vec::push / extend_from_slice write in place and assert a reserved capacity of 64 bytes suffices; BitWriter::new reserves it
// @replay_search i16:-1023..1023:341 i16:-1023..1023:3 usize:0..33
// @heavy yes
// @outside progressive scans, restart intervals, extra_zero_runs fix-ups, larger coefficients and denser blocks
#[kani::proof]
#[kani::unwind(21)]
#[kani::stub(std::vec::Vec::push, jbr_push_stub)]
#[kani::stub(std::vec::Vec::extend_from_slice, jbr_extend_stub)]
#[kani::stub(jxl_jbr::verif::BitWriter::new, jbr_bit_writer_new)]
pub fn c17_sequential_block_zero_run_15_mid() {
    block_case(Some((1, 1)), Some((17, 1)));
    kani::cover!(true, "layout executed");
}

