//! jxl-jbr: C17 (JPEG reconstruction units: entropy-coded bit packing, canonical Huffman codes,
//! hostile reconstruction headers), C01.
use jxl_jbr::verif as jv;

/// ITU-T T.81 F.1.2.3 / B.1.1.5: entropy-coded bits are packed MSB first; after every 0xFF byte
/// a 0x00 byte is stuffed. Reference packer over at most 128 bits.
fn spec_pack(bits: u128, nbits: usize, out: &mut [u8; 34]) -> usize {
    let nbytes = (nbits + 7) / 8;
    let mut n = 0;
    let mut i = 0;
    while i < nbytes {
        let b = (bits >> (120 - 8 * i)) as u8;
        out[n] = b;
        n += 1;
        if b == 0xff {
            out[n] = 0;
            n += 1;
        }
        i += 1;
    }
    n
}

fn no_ff(v: u64) -> bool {
    let mut i = 0;
    while i < 8 {
        if (v >> (8 * i)) as u8 == 0xff {
            return false;
        }
        i += 1;
    }
    true
}

// @prop C17
// @tier quick
// @unit jxl_jbr::bit_writer::BitWriter::{new,write_huffman,write_raw,padding_bits,finalize,flush_buf,emit_byte}
// @sym a 13-bit Huffman code, 11 raw bits, a 40-bit raw run (crosses the 64-bit buffer: flush) and 3 more bits, all bit values symbolic; then padding with ones
// @bound write lengths concrete (13, 11, 40, 3, pad 5), values symbolic; the first 8 output bytes are assumed free of 0xFF (stuffing is the sibling harness), the last byte may be 0xFF
// @oblig the bytes produced are exactly the MSB-first concatenation of the written bit strings (ITU-T T.81), 0x00 stuffed after a final 0xFF; padding_bits() is the distance to the byte boundary
#[kani::proof]
#[kani::unwind(10)]
pub fn c17_bit_writer_msb_first_across_flush() {
    let mut w = jv::BitWriter::new();
    let c1: u64 = kani::any::<u64>() >> 51 << 51; // 13 bits, left-aligned
    let v2: u64 = kani::any::<u64>() & 0x7ff;
    let v3: u64 = kani::any::<u64>() & ((1 << 40) - 1);
    let v4: u64 = kani::any::<u64>() & 7;
    let acc: u128 = ((c1 >> 51) as u128) << 115 | (v2 as u128) << 104 | (v3 as u128) << 64 | (v4 as u128) << 61 | 0x1f << 56;
    kani::assume(no_ff((acc >> 64) as u64));
    w.write_huffman(c1, 13);
    w.write_raw(v2, 11);
    assert!(w.padding_bits() == 0);
    w.write_raw(v3, 40);
    w.write_raw(v4, 3);
    let pad = w.padding_bits();
    assert!(pad == 5);
    w.write_raw(0x1f, 5);
    let out = w.finalize();
    let mut want = [0u8; 34];
    let wn = spec_pack(acc, 72, &mut want);
    assert!(out.len() == wn);
    let i: usize = kani::any();
    kani::assume(i < wn);
    assert!(out[i] == want[i]);
    kani::cover!(wn == 10, "final byte 0xFF is stuffed");
    kani::cover!(wn == 9, "no stuffing");
    core::mem::forget(out);
}

// @prop C17
// @tier quick
// @unit jxl_jbr::bit_writer::BitWriter::{write_huffman,write_raw,finalize,emit_byte}
// @sym a 9-bit Huffman code and 15 raw bits (24 bits, no flush), all values symbolic incl. 0xFF bytes
// @bound 3 output bytes before stuffing
// @oblig every 0xFF byte of the entropy-coded data is followed by a stuffed 0x00 and nothing else is inserted
#[kani::proof]
#[kani::unwind(10)]
pub fn c17_bit_writer_byte_stuffing() {
    let mut w = jv::BitWriter::new();
    let c1: u64 = kani::any::<u64>() >> 55 << 55;
    let v2: u64 = kani::any::<u64>() & 0x7fff;
    w.write_huffman(c1, 9);
    w.write_raw(v2, 15);
    let acc: u128 = ((c1 >> 55) as u128) << 119 | (v2 as u128) << 104;
    let out = w.finalize();
    let mut want = [0u8; 34];
    let wn = spec_pack(acc, 24, &mut want);
    assert!(out.len() == wn);
    let i: usize = kani::any();
    kani::assume(i < wn);
    assert!(out[i] == want[i]);
    kani::cover!(wn == 6, "three 0xFF bytes, all stuffed");
    kani::cover!(wn == 4 && want[0] != 0xff && want[2] != 0xff, "0xFF in the middle byte");
    core::mem::forget(out);
}

// @prop C17
// @tier quick
// @unit jxl_jbr::huffman::{HuffmanCode::build,BuiltHuffmanTable::lookup}
// @sym a table with 2 codes of length 2, 1 code of length 3 and the sentinel of length 4 (counts fixed), the three symbol values and the looked-up symbol symbolic
// @bound one table shape (4 entries incl. sentinel); values any distinct bytes
// @oblig codes are the canonical assignment of ITU-T T.81 Annex C (00, 01, 100; the sentinel gets no entry), left-aligned with their length; a symbol that is not in the table is an error, never a panic
#[kani::proof]
#[kani::unwind(258)]
pub fn c17_huffman_canonical_codes() {
    let (a, b, c, s): (u8, u8, u8, u8) = (kani::any(), kani::any(), kani::any(), kani::any());
    kani::assume(a != b && a != c && b != c && s != a && s != b && s != c);
    let mut counts = [0u8; 17];
    counts[2] = 2;
    counts[3] = 1;
    counts[4] = 1; // sentinel
    let q: u8 = kani::any();
    let r = jv::huffman_build_and_lookup(counts, vec![a, b, c, s], q);
    if q == a {
        assert!(r == Ok((2, 0b00u64 << 62)));
    } else if q == b {
        assert!(r == Ok((2, 0b01u64 << 62)));
    } else if q == c {
        assert!(r == Ok((3, 0b100u64 << 61)));
    } else {
        assert!(r.is_err());
    }
    kani::cover!(q == c, "length-3 code looked up");
    kani::cover!(q == s, "sentinel has no code");
}

// @prop C17 C01
// @tier quick
// @unit jxl_jbr::{AppMarker::parse,JpegBitstreamHeader::{expected_icc_len,expected_exif_len,expected_xmp_len}}
// @sym 5 symbolic bytes holding two APPn marker records (type selector + 16-bit length each), parsed with the real record parser
// @bound two APP markers; the other header parts are empty (they do not enter these queries)
// @oblig hostile reconstruction data is either rejected when parsed or yields a header whose size queries (used by JpegBitstreamReconstructor::new) return without panic; accepted records have a type the writer can reconstruct (0..=3)
#[kani::proof]
#[kani::unwind(10)]
pub fn c17_jbrd_app_marker_size_queries_total() {
    let bytes: [u8; 5] = kani::any();
    let mut bs = jxl_bitstream::Bitstream::new(&bytes[..]);
    match jv::header_with_app_markers(&mut bs, 2) {
        Err(e) => {
            kani::cover!(true, "hostile record rejected");
            core::mem::forget(e);
        }
        Ok(h) => {
            let a = h.expected_icc_len();
            let b = h.expected_exif_len();
            let c = h.expected_xmp_len();
            kani::cover!(a > 0, "ICC chunk accepted");
            kani::cover!(b > 0 || c > 0, "exif or xmp accepted");
            core::mem::forget(h);
        }
    }
}
