//! Kani harnesses over the real jxl-oxide crates (path deps on /repo/crates/*).
//! Every `#[kani::proof]` is preceded by `// @key value` tags read by /verif/bin/check.
#![allow(clippy::all)]
#![allow(dead_code)]
#![cfg_attr(kani, feature(allocator_api))]

pub mod spec;

#[cfg(kani)]
mod c_bits;
#[cfg(kani)]
mod c_grid;
#[cfg(kani)]
mod c_dct;
#[cfg(kani)]
mod c_errors;
#[cfg(kani)]
mod c_blend;
#[cfg(kani)]
mod c_icc;
#[cfg(kani)]
mod c_jbr;
#[cfg(kani)]
mod c_fb;
#[cfg(kani)]
mod c_region;
#[cfg(kani)]
mod c_coding;
#[cfg(kani)]
mod c_modular;
#[cfg(kani)]
mod c_image;
#[cfg(kani)]
mod c_toc;
#[cfg(kani)]
mod c_container;
#[cfg(kani)]
mod playback_gen;

// c_render.rs (C08/C20 render-handle harness) is kept in the tree but not compiled: symbolic
// execution of FrameRender<S>'s drop glue does not finish (DESIGN section 8).
