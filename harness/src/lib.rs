//! Kani harnesses over the real jxl-oxide crates (path deps on /repo/crates/*).
//! Every `#[kani::proof]` is preceded by `// @key value` tags read by /verif/bin/check.
#![allow(clippy::all)]
#![allow(dead_code)]

pub mod spec;

#[cfg(kani)]
mod c_bits;
#[cfg(kani)]
mod c_grid;
#[cfg(kani)]
mod c_coding;
#[cfg(kani)]
mod c_modular;
#[cfg(kani)]
mod c_image;
#[cfg(kani)]
mod c_container;
#[cfg(kani)]
mod playback_gen;
