//! jxl-render generic DCT: C16 (inverse block transforms match their definition) for small sizes.
use crate::spec::dct_tables::*;
use jxl_grid::MutableSubgrid;
use jxl_render::verif::generic_dct_2d;

/// Coefficient amplitudes (a table: general f32 operands make float multiplier reasoning too hard
/// for the SAT solver, see DESIGN 8.2).
fn amplitude() -> f32 {
    const T: [f32; 6] = [1.0, -1.0, 0.5, 3.0, -255.0, 1024.0];
    let k: usize = kani::any();
    kani::assume(k < 6);
    T[k]
}

fn close(got: f32, want: f64, scale: f64) -> bool {
    let d = got as f64 - want;
    let tol = 1.0e-5 * scale;
    d <= tol && d >= -tol
}

fn idct_1d_impulse<const N: usize>(basis: &[[f64; N]; N], k: usize) {
    // a single coefficient at position k (enumerated), amplitude from the table
    let v = amplitude();
    let mut buf = [0f32; N];
    buf[k] = v;
    {
        let mut g = MutableSubgrid::from_buf(&mut buf[..], N, 1, N);
        generic_dct_2d(&mut g, false);
    }
    let i: usize = kani::any();
    kani::assume(i < N);
    assert!(close(buf[i], v as f64 * basis[k][i], (v as f64).abs()));
    // and the forward transform brings the impulse back
    {
        let mut g = MutableSubgrid::from_buf(&mut buf[..], N, 1, N);
        generic_dct_2d(&mut g, true);
    }
    let j: usize = kani::any();
    kani::assume(j < N);
    let want = if j == k { v as f64 } else { 0.0 };
    assert!(close(buf[j], want, (v as f64).abs()));
}

// @prop C16
// @tier thorough
// @unit jxl_render::vardct::generic::dct::{dct_2d,dct,dct4} for 1x8 blocks (generic, non-SIMD path)
// @sym impulse amplitude from a 6-value table; the impulse position is enumerated (all 8); the inspected output sample is symbolic
// @bound 8-point transform, impulse inputs (one non-zero coefficient), amplitudes {1,-1,0.5,3,-255,1024}
// @oblig the inverse transform of an impulse at k is amplitude * c_k * cos((2i+1)k pi/16) within 1e-5 relative (the transform's defining formula evaluated in double precision); the forward transform maps it back to the impulse
// @outside superpositions (the transform is linear up to rounding), sizes above 16, all SIMD paths
#[kani::proof]
#[kani::unwind(10)]
pub fn c16_idct8_impulse_responses() {
    idct_1d_impulse::<8>(&BASIS_8, 0);
    idct_1d_impulse::<8>(&BASIS_8, 1);
    idct_1d_impulse::<8>(&BASIS_8, 2);
    idct_1d_impulse::<8>(&BASIS_8, 3);
    idct_1d_impulse::<8>(&BASIS_8, 4);
    idct_1d_impulse::<8>(&BASIS_8, 5);
    idct_1d_impulse::<8>(&BASIS_8, 6);
    idct_1d_impulse::<8>(&BASIS_8, 7);
    kani::cover!(true, "all 8 impulses executed");
}

// @prop C16
// @tier quick
// @unit jxl_render::vardct::generic::dct::{dct_2d,dct4} for 1x4 blocks
// @sym as the 8-point harness for the 4-point transform (positions 0..4)
// @bound 4-point transform, impulse inputs
// @oblig as the 8-point harness with cos((2i+1)k pi/8)
#[kani::proof]
#[kani::unwind(6)]
pub fn c16_idct4_impulse_responses() {
    idct_1d_impulse::<4>(&BASIS_4, 0);
    idct_1d_impulse::<4>(&BASIS_4, 1);
    idct_1d_impulse::<4>(&BASIS_4, 2);
    idct_1d_impulse::<4>(&BASIS_4, 3);
    kani::cover!(true, "all 4 impulses executed");
}

// @prop C16
// @tier quick
// @unit jxl_render::vardct::generic::dct::dct_2d for 2x2, 2x1 and 1x2 blocks
// @sym all samples from the amplitude table
// @bound the three smallest block shapes
// @oblig forward = averages and differences scaled by 1/2 per dimension, inverse = sums and differences (the 2-point DCT of the definition), exact up to 1e-5; inverse(forward(x)) == x
#[kani::proof]
#[kani::unwind(6)]
pub fn c16_dct_2x2_and_2x1() {
    let (a, b, c, d) = (amplitude(), amplitude(), amplitude(), amplitude());
    let mut buf = [a, b, c, d];
    let scale = 2048.0;
    {
        let mut g = MutableSubgrid::from_buf(&mut buf[..], 2, 2, 2);
        generic_dct_2d(&mut g, true);
    }
    let (fa, fb, fc, fd) = (a as f64, b as f64, c as f64, d as f64);
    assert!(close(buf[0], (fa + fb + fc + fd) / 4.0, scale));
    assert!(close(buf[1], (fa - fb + fc - fd) / 4.0, scale));
    assert!(close(buf[2], (fa + fb - fc - fd) / 4.0, scale));
    assert!(close(buf[3], (fa - fb - fc + fd) / 4.0, scale));
    {
        let mut g = MutableSubgrid::from_buf(&mut buf[..], 2, 2, 2);
        generic_dct_2d(&mut g, false);
    }
    assert!(close(buf[0], fa, scale) && close(buf[1], fb, scale) && close(buf[2], fc, scale) && close(buf[3], fd, scale));
    // 2x1 and 1x2
    let mut row = [a, b];
    {
        let mut g = MutableSubgrid::from_buf(&mut row[..], 2, 1, 2);
        generic_dct_2d(&mut g, false);
    }
    assert!(close(row[0], fa + fb, scale) && close(row[1], fa - fb, scale));
    let mut col = [a, b];
    {
        let mut g = MutableSubgrid::from_buf(&mut col[..], 1, 2, 1);
        generic_dct_2d(&mut g, true);
    }
    assert!(close(col[0], (fa + fb) / 2.0, scale) && close(col[1], (fa - fb) / 2.0, scale));
    kani::cover!(a != b && c != d, "non-constant block");
}

/// 2-D impulse at (ky, kx) of a W x H block through the real 2-D driver (columns, transposition,
/// rows): every output sample must be amplitude * B_H[ky][y] * B_W[kx][x].
fn idct_2d_impulse<const W: usize, const H: usize, const WH: usize>(bw: &[[f64; W]; W], bh: &[[f64; H]; H], ky: usize, kx: usize) {
    let v = amplitude();
    let mut buf = [0f32; WH];
    buf[ky * W + kx] = v;
    {
        let mut g = MutableSubgrid::from_buf(&mut buf[..], W, H, W);
        generic_dct_2d(&mut g, false);
    }
    let (x, y): (usize, usize) = (kani::any(), kani::any());
    kani::assume(x < W && y < H);
    assert!(close(buf[y * W + x], v as f64 * bh[ky][y] * bw[kx][x], (v as f64).abs() * 2.0));
}

// @prop C16
// @tier quick
// @unit jxl_render::vardct::generic::dct::dct_2d (column pass, transposition, row pass) for 4x4 blocks
// @sym impulse amplitude from the 6-value table; impulse position enumerated over a set that has every row and every column (8 of 16 positions); inspected output sample symbolic
// @bound 4x4, impulse inputs
// @oblig output(y, x) = amplitude * B4[ky][y] * B4[kx][x] within 1e-5 relative: the separable definition of the 2-D inverse DCT
// @outside superpositions, sizes above 8, SIMD paths
#[kani::proof]
#[kani::unwind(10)]
pub fn c16_idct4x4_impulse_responses() {
    idct_2d_impulse::<4, 4, 16>(&BASIS_4, &BASIS_4, 0, 0);
    idct_2d_impulse::<4, 4, 16>(&BASIS_4, &BASIS_4, 0, 1);
    idct_2d_impulse::<4, 4, 16>(&BASIS_4, &BASIS_4, 1, 0);
    idct_2d_impulse::<4, 4, 16>(&BASIS_4, &BASIS_4, 1, 2);
    idct_2d_impulse::<4, 4, 16>(&BASIS_4, &BASIS_4, 2, 3);
    idct_2d_impulse::<4, 4, 16>(&BASIS_4, &BASIS_4, 3, 1);
    idct_2d_impulse::<4, 4, 16>(&BASIS_4, &BASIS_4, 3, 3);
    idct_2d_impulse::<4, 4, 16>(&BASIS_4, &BASIS_4, 2, 0);
    kani::cover!(true, "all impulses executed");
}

// @prop C16
// @tier thorough
// @unit jxl_render::vardct::generic::dct::dct_2d for rectangular 8x4 and 4x8 blocks
// @sym as the 4x4 harness; positions chosen so that a swapped width/height or a missing transposition changes the result
// @bound 8x4 and 4x8, impulse inputs
// @oblig output(y, x) = amplitude * B_H[ky][y] * B_W[kx][x]
// @outside as the 4x4 harness
#[kani::proof]
#[kani::unwind(10)]
pub fn c16_idct_rectangular_impulse_responses() {
    idct_2d_impulse::<8, 4, 32>(&BASIS_8, &BASIS_4, 0, 5);
    idct_2d_impulse::<8, 4, 32>(&BASIS_8, &BASIS_4, 3, 0);
    idct_2d_impulse::<8, 4, 32>(&BASIS_8, &BASIS_4, 2, 7);
    idct_2d_impulse::<4, 8, 32>(&BASIS_4, &BASIS_8, 5, 0);
    idct_2d_impulse::<4, 8, 32>(&BASIS_4, &BASIS_8, 0, 3);
    idct_2d_impulse::<4, 8, 32>(&BASIS_4, &BASIS_8, 7, 2);
    kani::cover!(true, "all impulses executed");
}

fn idct_1d_impulse_inverse_only<const N: usize>(basis: &[[f64; N]; N], k: usize) {
    let v = amplitude();
    let mut buf = [0f32; N];
    buf[k] = v;
    {
        let mut g = MutableSubgrid::from_buf(&mut buf[..], N, 1, N);
        generic_dct_2d(&mut g, false);
    }
    let i: usize = kani::any();
    kani::assume(i < N);
    assert!(close(buf[i], v as f64 * basis[k][i], (v as f64).abs()));
}

// @prop C16
// @tier quick
// @unit jxl_render::vardct::generic::dct::{dct_2d,dct} 8-point inverse kernel (the kernel every size from 8 up recurses into)
// @sym impulse amplitude from the 6-value table; all eight impulse positions (enumerated); inspected output sample symbolic
// @bound 8-point inverse transform (the forward transform of the results is in the thorough tier)
// @oblig output(i) = amplitude * c_k * cos((2i+1)k pi/16) within 1e-5 relative
// @outside as c16_idct8_impulse_responses
#[kani::proof]
#[kani::unwind(10)]
pub fn c16_idct8_selected_impulses() {
    idct_1d_impulse_inverse_only::<8>(&BASIS_8, 0);
    idct_1d_impulse_inverse_only::<8>(&BASIS_8, 1);
    idct_1d_impulse_inverse_only::<8>(&BASIS_8, 2);
    idct_1d_impulse_inverse_only::<8>(&BASIS_8, 3);
    idct_1d_impulse_inverse_only::<8>(&BASIS_8, 4);
    idct_1d_impulse_inverse_only::<8>(&BASIS_8, 5);
    idct_1d_impulse_inverse_only::<8>(&BASIS_8, 6);
    idct_1d_impulse_inverse_only::<8>(&BASIS_8, 7);
    kani::cover!(true, "all impulses executed");
}
