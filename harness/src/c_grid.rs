//! jxl-grid: C02 (raw-pointer subgrids stay in bounds and disjoint), C13 (allocation accounting).
use jxl_grid::{AlignedGrid, AllocHandle, AllocTracker, MutableSubgrid, SharedSubgrid};

const N: usize = 36;

fn ptr_index(base: *const i32, p: *const i32) -> usize {
    ((p as usize) - (base as usize)) / 4
}

/// Builds a subgrid over a fresh 36-element buffer with symbolic geometry.
/// Returns (width, height, stride).
fn any_geometry() -> (usize, usize, usize) {
    let w: usize = kani::any();
    let h: usize = kani::any();
    let s: usize = kani::any();
    kani::assume(w >= 1 && w <= 6 && h >= 1 && h <= 6 && s >= w && s <= 6);
    (w, h, s)
}

// @prop C02
// @tier quick
// @unit jxl_grid::MutableSubgrid::{from_buf,subgrid,split_horizontal,split_vertical,get_mut,get_row_mut,try_get_ref,swap}
// @sym width,height in 1..=6, stride in width..=6 over a 36-element buffer; sub-rectangle bounds; split positions; coordinates (all symbolic, in and out of range)
// @bound grids up to 6x6 with stride <= 6; one subgrid + one split of each kind
// @oblig every dereference inside the backing buffer (Kani pointer checks); out-of-range arguments panic (caught as: call must not return a reference) instead of yielding a pointer; the two halves of a split are disjoint and cover the parent: writes through one half never change a cell addressed through the other
// @outside larger grids (index arithmetic is affine in the coordinates); element types other than i32
// @assume split positions strictly inside so that no one-past-the-end row pointer is formed (reported separately, see DESIGN C02)
#[kani::proof]
#[kani::unwind(8)]
pub fn c02_subgrid_split_in_bounds_and_disjoint() {
    let mut buf = [0i32; N];
    let base = buf.as_ptr();
    let (w, h, s) = any_geometry();
    let mut g = MutableSubgrid::from_buf(&mut buf[..s * (h - 1) + w], w, h, s);

    // subgrid by arbitrary in-range rectangle
    let l: usize = kani::any();
    let r: usize = kani::any();
    let t: usize = kani::any();
    let b: usize = kani::any();
    kani::assume(l <= r && r <= w && t <= b && b <= h);
    kani::assume(l < w && t < h);
    let mut sg = g.borrow_mut().subgrid(l..r, t..b);
    assert!(sg.width() == r - l && sg.height() == b - t);
    let x: usize = kani::any();
    let y: usize = kani::any();
    match sg.try_get_mut(x, y) {
        Some(p) => {
            assert!(x < r - l && y < b - t);
            let idx = ptr_index(base, p as *const i32);
            assert!(idx == (t + y) * s + (l + x));
            assert!(idx < N);
            *p = 7;
        }
        None => assert!(x >= r - l || y >= b - t),
    }
    kani::cover!(r - l == 6 && b - t == 6, "full 6x6 subgrid");

    // horizontal split: disjoint + covering
    let sx: usize = kani::any();
    kani::assume(sx < w);
    {
        let (mut left, mut right) = g.split_horizontal(sx);
        assert!(left.width() == sx && right.width() == w - sx);
        assert!(left.height() == h && right.height() == h);
        let yy: usize = kani::any();
        kani::assume(yy < h);
        if sx > 0 {
            let lx: usize = kani::any();
            kani::assume(lx < sx);
            let lp = left.get_mut(lx, yy) as *mut i32;
            assert!(ptr_index(base, lp) == yy * s + lx);
        }
        let rx: usize = kani::any();
        kani::assume(rx < w - sx);
        let rp = right.get_mut(rx, yy) as *mut i32;
        assert!(ptr_index(base, rp) == yy * s + sx + rx);
        let row = right.get_row_mut(yy);
        assert!(row.len() == w - sx);
        row[rx] = 3;
    }
    // vertical split
    let sy: usize = kani::any();
    kani::assume(sy < h);
    {
        let (top, mut bottom) = g.split_vertical(sy);
        assert!(top.height() == sy && bottom.height() == h - sy);
        let by: usize = kani::any();
        let bx: usize = kani::any();
        kani::assume(by < h - sy && bx < w);
        let bp = bottom.get_mut(bx, by) as *mut i32;
        assert!(ptr_index(base, bp) == (sy + by) * s + bx);
        kani::cover!(sy == 5 && by == 0 && bx == 5, "last row of a 6-row grid");
    }
    // swap in range
    let (ax, ay, bx2, by2): (usize, usize, usize, usize) = kani::any();
    kani::assume(ax < w && bx2 < w && ay < h && by2 < h);
    g.swap((ax, ay), (bx2, by2));
}

fn groups_case(cols: usize, rows: usize) {
    let mut buf = [0i32; N];
    let base = buf.as_ptr();
    let (w, h, s) = any_geometry();
    let g = MutableSubgrid::from_buf(&mut buf[..s * (h - 1) + w], w, h, s);
    let gw: usize = kani::any();
    let gh: usize = kani::any();
    kani::assume(gw >= 1 && gw <= 6 && gh >= 1 && gh <= 6);
    // the counts are what into_groups computes (ceil division), stated without division:
    kani::assume((cols - 1) * gw < w && w <= cols * gw);
    kani::assume((rows - 1) * gh < h && h <= rows * gh);
    let mut groups = g.into_groups_with_fixed_count(gw, gh, cols, rows);
    assert!(groups.len() == cols * rows);
    // a cell of the parent, named by (group column, group row, local x, local y)
    let (cx, cy, lx, ly): (usize, usize, usize, usize) = kani::any();
    kani::assume(cx < cols && cy < rows && lx < gw && ly < gh);
    let x = cx * gw + lx;
    let y = cy * gh + ly;
    kani::assume(x < w && y < h);
    let gi = cy * cols + cx;
    let grp = &mut groups[gi];
    assert!(grp.width() == core::cmp::min(gw, w - cx * gw));
    assert!(grp.height() == core::cmp::min(gh, h - cy * gh));
    let p = grp.get_mut(lx, ly) as *mut i32;
    assert!(ptr_index(base, p) == y * s + x);
    // no other group addresses that cell, and nothing addresses outside the buffer
    let other: usize = kani::any();
    kani::assume(other < cols * rows && other != gi);
    let og = &mut groups[other];
    let ox: usize = kani::any();
    let oy: usize = kani::any();
    if let Some(q) = og.try_get_mut(ox, oy) {
        assert!(ptr_index(base, q as *mut i32) != y * s + x);
        assert!(ptr_index(base, q as *mut i32) < s * (h - 1) + w);
    }
    kani::cover!(w % gw != 0 && cx == cols - 1, "ragged last column");
    kani::cover!(h % gh != 0 && cy == rows - 1, "ragged last row");
    core::mem::forget(groups);
}

// @prop C02 C07
// @tier quick
// @unit jxl_grid::MutableSubgrid::{into_groups_with_fixed_count,get_mut,try_get_mut}
// @sym width,height in 1..=6, stride in width..=6; group width/height in 1..=6 such that the grid is exactly covered by 2x2 groups (container size concrete, geometry symbolic); the probed cell and the second group symbolic
// @bound grids up to 6x6, 2x2 groups (3x2 and 1x3 in the thorough tier)
// @oblig the groups returned by one call are pairwise disjoint, lie inside the parent and cover it: cell (x,y) is addressed by exactly group (x/gw, y/gh) at local (x%gw, y%gh); sizes are min(gw, w - gx*gw) etc. (the partition premise the parallel renderer relies on)
// @outside more than 3 groups per axis; over-count is in c02_into_groups_overcount
#[kani::proof]
#[kani::unwind(4)]
pub fn c02_into_groups_partition_2x2() {
    groups_case(2, 2);
}

// @prop C02 C07
// @tier thorough
// @unit jxl_grid::MutableSubgrid::into_groups_with_fixed_count
// @sym as the 2x2 case with 3 columns x 2 rows
// @bound grids up to 6x6, 3x2 groups
// @oblig as the 2x2 case
#[kani::proof]
#[kani::unwind(5)]
pub fn c02_into_groups_partition_3x2() {
    groups_case(3, 2);
}

/// Over-count: more group columns/rows requested than the grid has (callers partition shifted
/// channels with the group count of the unshifted image): groups wholly outside are zero-sized.
fn groups_overcount_case(cols: usize, rows: usize) {
    let mut buf = [0i32; N];
    let base = buf.as_ptr();
    let (w, h, s) = any_geometry();
    kani::assume(h <= 4);
    // the whole 36-element buffer backs the grid, so that the row/column pointers formed for the
    // outside groups stay inside the allocation (pointer formation itself is discussed in DESIGN C02)
    let g = MutableSubgrid::from_buf(&mut buf[..], w, h, s);
    let gw: usize = kani::any();
    let gh: usize = kani::any();
    kani::assume(gw >= 1 && gw <= 6 && gh >= 1 && gh <= 6);
    // at least the last column (and possibly more) lies wholly outside
    kani::assume((cols - 1) * gw >= w);
    let mut groups = g.into_groups_with_fixed_count(gw, gh, cols, rows);
    assert!(groups.len() == cols * rows);
    let (cx, cy): (usize, usize) = (kani::any(), kani::any());
    kani::assume(cx < cols && cy < rows);
    let gi = cy * cols + cx;
    let want_w = if cx * gw >= w { 0 } else { core::cmp::min(gw, w - cx * gw) };
    let want_h = if cy * gh >= h { 0 } else { core::cmp::min(gh, h - cy * gh) };
    assert!(groups[gi].width() == want_w);
    assert!(groups[gi].height() == want_h);
    // whatever a group can address lies inside the parent grid, in its own cell range
    let (ox, oy): (usize, usize) = (kani::any(), kani::any());
    if let Some(q) = groups[gi].try_get_mut(ox, oy) {
        let idx = ptr_index(base, q as *mut i32);
        assert!(ox < want_w && oy < want_h);
        assert!(idx == (cy * gh + oy) * s + cx * gw + ox);
    }
    kani::cover!(want_w == 0 && want_h > 0, "column wholly outside");
    kani::cover!(want_w > 0 && want_w < gw, "ragged column next to an outside one");
    core::mem::forget(groups);
}

// @prop C02 C07
// @tier quick
// @unit jxl_grid::MutableSubgrid::into_groups_with_fixed_count with more groups than the grid holds
// @sym width in 1..=6, height in 1..=4, stride, group size in 1..=6 such that at least the last of 3 columns lies wholly beyond the right edge; 3 columns x 2 rows; probed group and cell symbolic
// @bound grids up to 6x4, 3x2 groups
// @oblig no arithmetic overflow in a checked build; groups wholly outside are zero-sized, the others have the clipped size; every cell a group can address is its own cell of the parent (no aliasing, nothing outside)
#[kani::proof]
#[kani::unwind(5)]
pub fn c02_into_groups_overcount() {
    groups_overcount_case(3, 2);
}

// @prop C02 C07
// @tier quick
// @unit jxl_grid::MutableSubgrid::into_groups
// @sym concrete geometries (5x4 stride 6 with 2x3 groups; 6x6 with 4x4 groups; 3x1 with 1x1 groups); probed cell symbolic
// @bound three concrete geometries (into_groups = ceil-division + into_groups_with_fixed_count, whose geometry is symbolic in the other harness)
// @oblig group count = ceil(w/gw)*ceil(h/gh) and each cell is owned by group (x/gw,y/gh)
#[kani::proof]
#[kani::unwind(8)]
pub fn c02_into_groups_count() {
    groups_count_case(5, 4, 6, 2, 3);
    groups_count_case(6, 6, 6, 4, 4);
    groups_count_case(3, 1, 3, 1, 1);
}

fn groups_count_case(w: usize, h: usize, s: usize, gw: usize, gh: usize) {
    let mut buf = [0i32; N];
    let base = buf.as_ptr();
    let g = MutableSubgrid::from_buf(&mut buf[..s * (h - 1) + w], w, h, s);
    let mut groups = g.into_groups(gw, gh);
    let cols = (w + gw - 1) / gw;
    let rows = (h + gh - 1) / gh;
    assert!(groups.len() == cols * rows);
    let (cx, cy, lx, ly): (usize, usize, usize, usize) = kani::any();
    kani::assume(cx < cols && cy < rows && lx < gw && ly < gh);
    let (x, y) = (cx * gw + lx, cy * gh + ly);
    kani::assume(x < w && y < h);
    let grp = &mut groups[cy * cols + cx];
    let p = grp.get_mut(lx, ly) as *mut i32;
    assert!(ptr_index(base, p) == y * s + x);
    kani::cover!(w == 5 && x == 4 && y == 3, "last cell of the ragged 5x4 case");
    core::mem::forget(groups);
}

// @prop C02
// @tier quick
// @unit jxl_grid::SharedSubgrid::{from_buf,subgrid,split_horizontal,split_vertical,try_get_ref,get_row} jxl_grid::AlignedGrid::{with_alloc_tracker,as_subgrid,get_row,try_get_ref,buf}
// @sym geometry as above; coordinates in and out of range; AlignedGrid<i32> of size 3x2 (heap size concrete), alignment offset symbolic (pointer address is nondeterministic in CBMC)
// @bound grids up to 6x6 (shared); AlignedGrid 3x2
// @oblig reads stay in the buffer and address cell y*stride+x; out-of-range yields None; AlignedGrid's alignment offset arithmetic keeps width*height cells addressable
#[kani::proof]
#[kani::unwind(14)]
pub fn c02_shared_subgrid_and_aligned_grid() {
    let buf = [0i32; N];
    let base = buf.as_ptr();
    let (w, h, s) = any_geometry();
    let g = SharedSubgrid::from_buf(&buf[..s * (h - 1) + w], w, h, s);
    let x: usize = kani::any();
    let y: usize = kani::any();
    match g.try_get_ref(x, y) {
        Some(p) => {
            assert!(x < w && y < h);
            assert!(ptr_index(base, p as *const i32) == y * s + x);
        }
        None => assert!(x >= w || y >= h),
    }
    let sx: usize = kani::any();
    kani::assume(sx > 0 && sx < w);
    let (a, b) = g.split_horizontal(sx);
    assert!(a.width() == sx && b.width() == w - sx);
    let yy: usize = kani::any();
    kani::assume(yy < h);
    let row = b.get_row(yy);
    assert!(row.len() == w - sx);
    assert!(ptr_index(base, row.as_ptr()) == yy * s + sx);
    kani::cover!(w == 6 && h == 6 && sx == 5, "6x6 split at 5");

    let (gw, gh) = (3usize, 2usize);
    let mut ag = AlignedGrid::<i32>::with_alloc_tracker(gw, gh, None).unwrap();
    assert!(ag.buf().len() == gw * gh);
    let (cx, cy): (usize, usize) = kani::any();
    match ag.try_get_mut(cx, cy) {
        Some(v) => {
            assert!(cx < gw && cy < gh);
            *v = 5;
        }
        None => assert!(cx >= gw || cy >= gh),
    }
    if gw > 0 && gh > 0 {
        let sg = ag.as_subgrid();
        assert!(sg.width() == gw && sg.height() == gh);
        kani::cover!(gw == 3 && gh == 2, "3x2 aligned grid");
    }
}

// ---------------------------------------------------------------- C13

/// Observes `bytes_left` exactly without a hook: for a symbolic probe x,
/// shrink_limit(x) succeeds iff x <= bytes_left (then the probe is undone).
fn assert_left(t: &AllocTracker, expected: usize) {
    let x = kani::any::<u32>() as usize;
    let r = t.shrink_limit(x);
    if x <= expected {
        assert!(r.is_ok());
        t.expand_limit(x);
    } else {
        assert!(r.is_err());
    }
}

// @prop C13
// @tier quick
// @unit jxl_grid::AllocTracker::{with_limit,alloc,expand_limit,shrink_limit} jxl_grid::AllocHandle::{drop,tracker}
// @sym pre-state: any tracker state with budget L < 2^24 and two live handles of any sizes a (u8 elements) and b (i32 elements) that fit; then ONE operation: alloc_f32x8 (the six operations are six harnesses; each is a separate solver query), n < 2^20
// @bound inductive step: arbitrary reachable pre-state (bytes_left + live handle sizes == budget) and one operation, so call histories of any length are covered; sizes below 2^25 (usize overflow of count*size for absurd counts is outside); unwind 3 covers the compare-exchange retry loop (unwinding assertion checked)
// @oblig after the operation bytes_left is exactly what the accounting rule says (observed with a symbolic shrink probe): a failing alloc returns Err with the requested size and changes nothing; tracked total never exceeds the budget; after dropping every handle the whole budget is available again and not one byte more (no leak, no double free)
#[kani::proof]
#[kani::unwind(3)]
pub fn c13_tracker_step_alloc_f32x8() {
    let o = tracker_step_case(0);
    kani::cover!(o == 1, "alloc succeeds");
    kani::cover!(o == 2, "alloc refused while some budget is left");
}

// @prop C13
// @tier quick
// @unit jxl_grid::AllocTracker::{with_limit,alloc,expand_limit,shrink_limit} jxl_grid::AllocHandle::{drop,tracker}
// @sym pre-state: any tracker state with budget L < 2^24 and two live handles of any sizes a (u8 elements) and b (i32 elements) that fit; then ONE operation: alloc_via_handle_tracker (the six operations are six harnesses; each is a separate solver query), n < 2^20
// @bound inductive step: arbitrary reachable pre-state (bytes_left + live handle sizes == budget) and one operation, so call histories of any length are covered; sizes below 2^25 (usize overflow of count*size for absurd counts is outside); unwind 3 covers the compare-exchange retry loop (unwinding assertion checked)
// @oblig after the operation bytes_left is exactly what the accounting rule says (observed with a symbolic shrink probe): a failing alloc returns Err with the requested size and changes nothing; tracked total never exceeds the budget; after dropping every handle the whole budget is available again and not one byte more (no leak, no double free)
#[kani::proof]
#[kani::unwind(3)]
pub fn c13_tracker_step_alloc_via_handle_tracker() {
    let o = tracker_step_case(1);
    kani::cover!(o == 1, "alloc through handle.tracker() succeeds");
    kani::cover!(o == 2, "refused");
}

// @prop C13
// @tier quick
// @unit jxl_grid::AllocTracker::{with_limit,alloc,expand_limit,shrink_limit} jxl_grid::AllocHandle::{drop,tracker}
// @sym pre-state: any tracker state with budget L < 2^24 and two live handles of any sizes a (u8 elements) and b (i32 elements) that fit; then ONE operation: drop_handle (the six operations are six harnesses; each is a separate solver query), n < 2^20
// @bound inductive step: arbitrary reachable pre-state (bytes_left + live handle sizes == budget) and one operation, so call histories of any length are covered; sizes below 2^25 (usize overflow of count*size for absurd counts is outside); unwind 3 covers the compare-exchange retry loop (unwinding assertion checked)
// @oblig after the operation bytes_left is exactly what the accounting rule says (observed with a symbolic shrink probe): a failing alloc returns Err with the requested size and changes nothing; tracked total never exceeds the budget; after dropping every handle the whole budget is available again and not one byte more (no leak, no double free)
#[kani::proof]
#[kani::unwind(3)]
pub fn c13_tracker_step_drop_handle() {
    let o = tracker_step_case(2);
    kani::cover!(o == 4, "handle dropped");
}

// @prop C13
// @tier quick
// @unit jxl_grid::AllocTracker::{with_limit,alloc,expand_limit,shrink_limit} jxl_grid::AllocHandle::{drop,tracker}
// @sym pre-state: any tracker state with budget L < 2^24 and two live handles of any sizes a (u8 elements) and b (i32 elements) that fit; then ONE operation: expand_limit (the six operations are six harnesses; each is a separate solver query), n < 2^20
// @bound inductive step: arbitrary reachable pre-state (bytes_left + live handle sizes == budget) and one operation, so call histories of any length are covered; sizes below 2^25 (usize overflow of count*size for absurd counts is outside); unwind 3 covers the compare-exchange retry loop (unwinding assertion checked)
// @oblig after the operation bytes_left is exactly what the accounting rule says (observed with a symbolic shrink probe): a failing alloc returns Err with the requested size and changes nothing; tracked total never exceeds the budget; after dropping every handle the whole budget is available again and not one byte more (no leak, no double free)
#[kani::proof]
#[kani::unwind(3)]
pub fn c13_tracker_step_expand_limit() {
    let o = tracker_step_case(3);
    kani::cover!(o == 4, "limit expanded");
}

// @prop C13
// @tier quick
// @unit jxl_grid::AllocTracker::{with_limit,alloc,expand_limit,shrink_limit} jxl_grid::AllocHandle::{drop,tracker}
// @sym pre-state: any tracker state with budget L < 2^24 and two live handles of any sizes a (u8 elements) and b (i32 elements) that fit; then ONE operation: shrink_limit (the six operations are six harnesses; each is a separate solver query), n < 2^20
// @bound inductive step: arbitrary reachable pre-state (bytes_left + live handle sizes == budget) and one operation, so call histories of any length are covered; sizes below 2^25 (usize overflow of count*size for absurd counts is outside); unwind 3 covers the compare-exchange retry loop (unwinding assertion checked)
// @oblig after the operation bytes_left is exactly what the accounting rule says (observed with a symbolic shrink probe): a failing alloc returns Err with the requested size and changes nothing; tracked total never exceeds the budget; after dropping every handle the whole budget is available again and not one byte more (no leak, no double free)
#[kani::proof]
#[kani::unwind(3)]
pub fn c13_tracker_step_shrink_limit() {
    let o = tracker_step_case(4);
    kani::cover!(o == 5, "shrink refused because of live allocations");
    kani::cover!(o == 4, "shrink done or refused");
}

// @prop C13
// @tier quick
// @unit jxl_grid::AllocTracker::{with_limit,alloc,expand_limit,shrink_limit} jxl_grid::AllocHandle::{drop,tracker}
// @sym pre-state: any tracker state with budget L < 2^24 and two live handles of any sizes a (u8 elements) and b (i32 elements) that fit; then ONE operation: alloc_u8 (the six operations are six harnesses; each is a separate solver query), n < 2^20
// @bound inductive step: arbitrary reachable pre-state (bytes_left + live handle sizes == budget) and one operation, so call histories of any length are covered; sizes below 2^25 (usize overflow of count*size for absurd counts is outside); unwind 3 covers the compare-exchange retry loop (unwinding assertion checked)
// @oblig after the operation bytes_left is exactly what the accounting rule says (observed with a symbolic shrink probe): a failing alloc returns Err with the requested size and changes nothing; tracked total never exceeds the budget; after dropping every handle the whole budget is available again and not one byte more (no leak, no double free)
#[kani::proof]
#[kani::unwind(3)]
pub fn c13_tracker_step_alloc_u8() {
    let o = tracker_step_case(5);
    kani::cover!(o == 1, "alloc succeeds");
    kani::cover!(o == 2, "alloc refused while some budget is left");
}

/// returns 1 = alloc ok, 2 = alloc refused with budget left, 3 = alloc refused (no budget), 4 = other op done, 5 = shrink refused although n <= budget
fn tracker_step_case(op: u8) -> u8 {
    let mut outcome = 4u8;
    let l = kani::any::<u32>() as usize;
    kani::assume(l < 1 << 24);
    let t = AllocTracker::with_limit(l);
    let a = kani::any::<u32>() as usize;
    let b = kani::any::<u32>() as usize;
    kani::assume(a < 1 << 20 && b < 1 << 20);
    let Ok(h1) = t.alloc::<u8>(a) else { return 0 };
    let Ok(h2) = t.alloc::<i32>(b) else { return 0 };
    let mut budget = l;
    let mut left = l - a - 4 * b;
    let mut h1 = Some(h1);
    let mut h3 = None;
    let mut c = 0usize;
    let n = kani::any::<u32>() as usize;
    kani::assume(n < 1 << 20);
    match op % 6 {
        0 => {
            let r = t.alloc::<[f32; 8]>(n);
            match r {
                Ok(h) => {
                    assert!(32 * n <= left);
                    c = 32 * n;
                    left -= c;
                    h3 = Some(h);
                    outcome = 1;
                }
                Err(e) => {
                    assert!(32 * n > left);
                    assert!(e.bytes() == 32 * n);
                    outcome = if left > 0 { 2 } else { 3 };
                }
            }
        }
        1 => {
            // through a tracker handle obtained from a live allocation
            let r = h2.tracker().alloc::<i32>(n);
            match r {
                Ok(h) => {
                    assert!(4 * n <= left);
                    c = 4 * n;
                    left -= c;
                    h3 = Some(h);
                    outcome = 1;
                }
                Err(_) => {
                    assert!(4 * n > left);
                    outcome = if left > 0 { 2 } else { 3 };
                }
            }
        }
        2 => {
            drop(h1.take());
            left += a;
        }
        3 => {
            t.expand_limit(n);
            left += n;
            budget += n;
        }
        4 => {
            let r = t.shrink_limit(n);
            if n <= left {
                assert!(r.is_ok());
                left -= n;
                budget -= n;
            } else {
                assert!(r.is_err());
                outcome = if n <= budget { 5 } else { 4 };
            }
        }
        _ => {
            let r = t.alloc::<u8>(n);
            match r {
                Ok(h) => {
                    assert!(n <= left);
                    c = n;
                    left -= c;
                    h3 = Some(h);
                    outcome = 1;
                }
                Err(e) => {
                    assert!(n > left);
                    assert!(e.bytes() == n);
                    outcome = if left > 0 { 2 } else { 3 };
                }
            }
        }
    }
    assert_left(&t, left);
    // drop every object: full budget back, nothing more
    drop(h1);
    drop(h2);
    drop(h3);
    assert!(t.shrink_limit(budget).is_ok());
    assert!(t.shrink_limit(1).is_err());
    outcome
}

// @prop C13 C08
// @tier quick
// @unit jxl_grid::AlignedGrid::<i32>::{with_alloc_tracker,drop}
// @sym grid 3x2 (heap size concrete); tracker limit any usize up to 4096; alignment offset nondeterministic
// @bound two grid sizes (the byte count is the only thing the accounting depends on); unwind 14 >= 13 elements + 1
// @oblig allocation succeeds iff (w*h + 7) * 4 bytes fit in the remaining budget; failure is an Err (no panic) and leaves the budget untouched; the budget is reduced by exactly that amount while the grid lives; after the drop the initial budget is back
#[kani::proof]
#[kani::unwind(14)]
pub fn c13_aligned_grid_charges_and_releases() {
    let o = aligned_grid_case(3, 2, 0);
    kani::cover!(o == 0, "allocation refused");
    kani::cover!(o == 1, "grid allocated and released");
}

// @prop C13
// @tier quick
// @unit jxl_grid::AlignedGrid::<i32>::with_alloc_tracker
// @sym zero-area grid 0x1; tracker limit any value up to 4096
// @bound one degenerate size
// @oblig as c13_aligned_grid_charges_and_releases (the 7 alignment-slack elements are still charged and released)
#[kani::proof]
#[kani::unwind(9)]
pub fn c13_aligned_grid_zero_area() {
    let o = aligned_grid_case(0, 1, 0);
    kani::cover!(o == 0, "allocation refused");
    kani::cover!(o == 1, "grid allocated and released");
}

// @prop C13
// @tier quick
// @unit jxl_grid::AlignedGrid::<i32>::{with_alloc_tracker,try_clone}
// @sym grid 2x1; tracker limit up to 4096; alignment offsets nondeterministic
// @bound one size
// @oblig try_clone charges the original's tracker a second time, fails cleanly (Err, nothing charged) when it does not fit, and both are released on drop
#[kani::proof]
#[kani::unwind(11)]
pub fn c13_aligned_grid_try_clone() {
    let o = aligned_grid_case(2, 1, 1);
    kani::cover!(o == 2, "clone charged and released");
    kani::cover!(o == 3, "clone refused, original still alive");
}

// @prop C13
// @tier quick
// @unit jxl_grid::AlignedGrid::<i32>::{with_alloc_tracker,clone_untracked}
// @sym grid 2x1; tracker limit up to 4096 (so the remaining budget is anything from 0 to ample); alignment offsets nondeterministic
// @bound one size
// @oblig clone_untracked ("clones the buffer without recording an allocation") returns for every remaining budget - it never panics when the budget is short -, the copy holds no handle and charges nothing, and dropping it gives nothing back that was not taken
#[kani::proof]
#[kani::unwind(11)]
pub fn c13_aligned_grid_clone_untracked() {
    let o = aligned_grid_case(2, 1, 2);
    kani::cover!(o == 4, "untracked clone made");
    kani::cover!(o == 0, "original refused");
}

/// returns 0 = refused, 1 = allocated and released, 2 = cloned, 3 = clone refused, 4 = untracked clone
fn aligned_grid_case(w: usize, h: usize, clone_mode: u8) -> u8 {
    let limit = kani::any::<u16>() as usize;
    kani::assume(limit <= 4096);
    let tracker = AllocTracker::with_limit(limit);
    let need = (w * h + 7) * 4;
    let r = AlignedGrid::<i32>::with_alloc_tracker(w, h, Some(&tracker));
    match r {
        Err(e) => {
            assert!(need > limit);
            assert!(e.bytes() == need);
            assert!(tracker.shrink_limit(limit).is_ok());
            0
        }
        Ok(grid) => {
            assert!(need <= limit);
            // exactly `need` bytes are charged
            assert!(tracker.shrink_limit(limit - need + 1).is_err());
            let mut out = 1;
            if clone_mode == 2 {
                // documented as "clones the buffer without recording an allocation": never fails,
                // charges nothing, whatever budget is left
                let c = grid.clone_untracked();
                assert!(c.tracker().is_none());
                assert!(tracker.shrink_limit(limit - need + 1).is_err());
                drop(c);
                out = 4;
            } else if clone_mode == 1 {
                let c = grid.try_clone();
                match c {
                    Ok(c2) => {
                        assert!(2 * need <= limit);
                        assert!(tracker.shrink_limit(limit - 2 * need + 1).is_err());
                        drop(c2);
                        out = 2;
                    }
                    Err(_) => {
                        assert!(2 * need > limit);
                        out = 3;
                    }
                }
                assert!(tracker.shrink_limit(limit - need + 1).is_err());
            }
            drop(grid);
            assert!(tracker.shrink_limit(limit).is_ok());
            assert!(tracker.shrink_limit(1).is_err());
            out
        }
    }
}
