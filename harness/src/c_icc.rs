//! jxl-color ICC decoding: C18 (embedded ICC returned byte-exactly) at unit level, C01.
use jxl_color::icc::decode_icc;
use jxl_color::icc::verif as iv;

/// ISO/IEC 18181-1 E.4.2 context of the ICC byte stream.
fn spec_icc_ctx(i: usize, b1: u8, b2: u8) -> u32 {
    if i <= 128 {
        return 0;
    }
    let letter = |b: u8| (b >= b'a' && b <= b'z') || (b >= b'A' && b <= b'Z');
    let digitish = |b: u8| (b >= b'0' && b <= b'9') || b == b'.' || b == b',';
    let p1 = if letter(b1) {
        0
    } else if digitish(b1) {
        1
    } else if b1 <= 1 {
        2 + b1 as u32
    } else if b1 > 1 && b1 < 16 {
        4
    } else if b1 > 240 && b1 < 255 {
        5
    } else if b1 == 255 {
        6
    } else {
        7
    };
    let p2 = if letter(b2) {
        0
    } else if digitish(b2) {
        1
    } else if b2 < 16 {
        2
    } else if b2 > 240 {
        3
    } else {
        4
    };
    1 + p1 + 8 * p2
}

/// ISO/IEC 18181-1 E.4.3 predicted ICC header byte.
fn spec_predict_header(i: usize, output_size: u32, header: &[u8; 128]) -> u8 {
    const DEFAULT: &[u8; 24] = b"\0\0\0\0\0\0\0\0\x04\0\0\0mntrRGB XYZ ";
    if i < 4 {
        return output_size.to_be_bytes()[i];
    }
    if i < 24 {
        return DEFAULT[i];
    }
    if i >= 36 && i < 40 {
        return b"acsp"[i - 36];
    }
    if i == 41 || i == 42 || i == 43 {
        let a = header[40];
        if a == b'A' {
            return [b'P', b'P', b'L'][i - 41];
        }
        if a == b'M' {
            return [b'S', b'F', b'T'][i - 41];
        }
        if i >= 42 && a == b'S' {
            if header[41] == b'G' {
                return [b'I', b' '][i - 42];
            }
            if header[41] == b'U' {
                return [b'N', b'W'][i - 42];
            }
        }
        return 0;
    }
    match i {
        70 => 246,
        71 => 214,
        73 => 1,
        78 => 211,
        79 => 45,
        80..=83 => header[4 + i - 80],
        _ => 0,
    }
}

/// Reference shuffle of E.4.4 (as in the reference implementation): the input is `width` rows of
/// `ceil(size/width)` columns in row-major order; the output reads it column by column.
fn spec_shuffle<const N: usize>(data: &[u8; N], width: usize) -> [u8; N] {
    let height = (N + width - 1) / width;
    let mut out = [0u8; N];
    let mut s = 0;
    let mut j = 0;
    let mut i = 0;
    while i < N {
        out[i] = data[j];
        j += height;
        if j >= N {
            s += 1;
            j = s;
        }
        i += 1;
    }
    out
}

// @prop C18
// @tier quick
// @unit jxl_color::icc::decode::get_icc_ctx
// @sym every index, previous byte and byte before
// @bound complete
// @oblig equals the context function of ISO/IEC 18181-1 E.4.2 (41 contexts)
#[kani::proof]
#[kani::unwind(2)]
pub fn c18_icc_context_function() {
    let i: usize = kani::any();
    let (b1, b2): (u8, u8) = (kani::any(), kani::any());
    let c = iv::get_icc_ctx(i, b1, b2);
    assert!(c == spec_icc_ctx(i, b1, b2));
    assert!(c < 41);
    kani::cover!(c == 40, "highest context");
    kani::cover!(i == 128 && c == 0, "header context at index 128");
}

fn shuffle_case<const N: usize>() {
    let data: [u8; N] = kani::any();
    let s2 = iv::shuffle2(&data[..]);
    let w2 = spec_shuffle::<N>(&data, 2);
    assert!(s2.len() == N);
    let s4 = iv::shuffle4(&data[..]);
    let w4 = spec_shuffle::<N>(&data, 4);
    assert!(s4.len() == N);
    let i: usize = kani::any();
    kani::assume(i < N);
    assert!(s2[i] == w2[i]);
    // 4-way shuffle of a ragged length (n >= 5, n % 4 in {1, 2}): the reference implementation's
    // index walk and an even distribution of the remainder over the rows give different
    // permutations, and jxl-oxide implements the latter. Which one the standard's text mandates
    // could not be settled offline (DESIGN section 8); only the unambiguous lengths are asserted.
    if N < 5 || N % 4 == 0 || N % 4 == 3 {
        assert!(s4[i] == w4[i]);
    }
    core::mem::forget(s2);
    core::mem::forget(s4);
}

// @prop C18
// @tier quick
// @unit jxl_color::icc::decode::{shuffle2,shuffle4}
// @sym byte strings of every length 1..=9 (lengths enumerated, contents symbolic)
// @bound lengths up to 9 (every residue of the length modulo 2 and 4 occurs twice)
// @oblig equals the specification's shuffle (transposition of a width x ceil(n/width) matrix with a ragged last column); for the 4-way shuffle only lengths with n < 5 or n % 4 in {0, 3} are asserted (see DESIGN section 8: unresolved divergence from the reference implementation for the other ragged lengths)
#[kani::proof]
#[kani::unwind(11)]
pub fn c18_icc_shuffles_match_spec() {
    shuffle_case::<1>();
    shuffle_case::<2>();
    shuffle_case::<3>();
    shuffle_case::<4>();
    shuffle_case::<5>();
    shuffle_case::<6>();
    shuffle_case::<7>();
    shuffle_case::<8>();
    shuffle_case::<9>();
    kani::cover!(true, "all lengths executed");
}

// @prop C18
// @tier thorough
// @unit jxl_color::icc::decode::{shuffle2,shuffle4}
// @sym byte strings of every length 10..=17 (lengths enumerated, contents symbolic)
// @bound lengths 10 to 17
// @oblig as c18_icc_shuffles_match_spec
#[kani::proof]
#[kani::unwind(19)]
pub fn c18_icc_shuffles_match_spec_longer() {
    shuffle_case::<10>();
    shuffle_case::<11>();
    shuffle_case::<12>();
    shuffle_case::<13>();
    shuffle_case::<14>();
    shuffle_case::<15>();
    shuffle_case::<16>();
    shuffle_case::<17>();
    kani::cover!(true, "all lengths executed");
}

// @prop C18
// @tier quick
// @unit jxl_color::icc::decode::predict_header
// @sym every header position 0..128, any output size, any 128 header bytes
// @bound complete over the 128-byte header
// @oblig equals the header prediction table of ISO/IEC 18181-1 E.4.3 (size bytes, 'mntrRGB XYZ ', 'acsp', platform signatures APPL/MSFT/SGI /SUNW, illuminant, creator copy)
#[kani::proof]
#[kani::unwind(2)]
pub fn c18_icc_header_prediction_table() {
    let header: [u8; 128] = kani::any();
    let size: u32 = kani::any();
    let i: usize = kani::any();
    kani::assume(i < 128);
    assert!(iv::predict_header(i, size, &header[..]) == spec_predict_header(i, size, &header));
    kani::cover!(i == 43 && header[40] == b'S' && header[41] == b'U', "SUNW platform");
    kani::cover!(i == 82, "creator copy");
}

// @prop C18 C01
// @tier quick
// @unit jxl_color::icc::decode_icc (header-only profiles: output_size <= 128)
// @sym output size 40 (concrete: the output allocation must be concrete), all 40 residual bytes symbolic, the compared position symbolic
// @bound one profile size below the header length; no commands
// @oblig the decoded profile is prediction + residual (mod 256) at every position, of exactly the announced size
#[kani::proof]
#[kani::unwind(42)]
pub fn c18_decode_icc_header_only_profile() {
    let mut stream = [0u8; 42];
    stream[0] = 40; // output_size
    stream[1] = 0; // commands_size
    let residual: [u8; 40] = kani::any();
    stream[2..].copy_from_slice(&residual);
    let out = decode_icc(&stream[..]).unwrap();
    assert!(out.len() == 40);
    let mut hdr = [0u8; 128];
    hdr[..40].copy_from_slice(&residual);
    let i: usize = kani::any();
    kani::assume(i < 40);
    assert!(out[i] == spec_predict_header(i, 40, &hdr).wrapping_add(residual[i]));
    kani::cover!(i == 39 && out[i] == b'p', "last byte of 'acsp' reproduced");
    core::mem::forget(out);
}


// ---- EXPERIMENTAL below (not run by any registered check): the tag-list interpreter of decode_icc.
// Symbolic execution does not finish within 15 minutes even for one tag: the cursor position after a
// varint is symbolic for CBMC (it cannot simplify the continuation-bit tests), so the tag loop, the
// hand-over to the main-content interpreter and every extend_from_slice are explored at symbolic
// offsets into the output vector. Seeded change M25 and finding F06 are therefore demonstrated natively only.
/// Stand-ins for `Vec::push` / `Vec::extend_from_slice` on the output profile: same effect, growth
/// replaced by an assertion that the reserved capacity (`output_size`) suffices.
pub fn icc_push_stub<T, A: std::alloc::Allocator>(v: &mut Vec<T, A>, value: T) {
    let len = v.len();
    assert!(len < v.capacity(), "stub: push within the reserved capacity");
    unsafe {
        core::ptr::write(v.as_mut_ptr().add(len), value);
        v.set_len(len + 1);
    }
}
pub fn icc_extend_stub<T: Clone, A: std::alloc::Allocator>(v: &mut Vec<T, A>, other: &[T]) {
    let mut i = 0;
    while i < other.len() {
        icc_push_stub(v, other[i].clone());
        i += 1;
    }
}

const SPEC_TAGS: [&[u8; 4]; 17] = [
    b"cprt", b"wtpt", b"bkpt", b"rXYZ", b"gXYZ", b"bXYZ", b"kXYZ", b"rTRC", b"gTRC", b"bTRC", b"kTRC", b"chad", b"desc", b"chrm", b"dmnd", b"dmdd", b"lumi",
];

const TAG_DATA: usize = 8;
const TAG_OUT: usize = 128 + 4 + 12 * 4;

struct SpecTagList {
    out: [u8; TAG_OUT],
    len: usize,
    err: bool,
    main_reached: bool,
}

/// ISO/IEC 18181-1 E.4.4 tag list, on a command string of TAG_CMDS bytes (after the tag count) and
/// TAG_DATA data bytes. `main_reached`: a command with tag code 0 ended the list (the main content
/// would follow; outside this model).
fn spec_tag_list<const TAG_CMDS: usize>(count_byte: u8, cmds: &[u8; TAG_CMDS], data: &[u8; TAG_DATA], output_size: u64) -> SpecTagList {
    let mut r = SpecTagList { out: [0; TAG_OUT], len: 128, err: false, main_reached: false };
    let mut put = |r: &mut SpecTagList, bytes: &[u8]| {
        let mut i = 0;
        while i < bytes.len() {
            if r.len < TAG_OUT {
                r.out[r.len] = bytes[i];
            }
            r.len += 1;
            i += 1;
        }
    };
    // count_byte < 128: a one-byte varint
    if count_byte == 0 {
        r.main_reached = true;
        return r;
    }
    let num_tags = count_byte as u64 - 1;
    if (output_size - 128) / 12 < num_tags {
        r.err = true;
        return r;
    }
    put(&mut r, &(num_tags as u32).to_be_bytes());
    let mut prev_start = num_tags * 12 + 128;
    let mut prev_size = 0u64;
    let mut cp = 0usize; // command position
    let mut dp = 0usize; // data position
    // a varint of at most TAG_CMDS bytes
    let varint = |cp: &mut usize, err: &mut bool| -> u64 {
        let mut v = 0u64;
        let mut shift = 0;
        loop {
            if *cp >= TAG_CMDS {
                *err = true;
                return 0;
            }
            let b = cmds[*cp];
            *cp += 1;
            v |= ((b & 127) as u64) << shift;
            if b < 128 {
                return v;
            }
            shift += 7;
        }
    };
    let mut guard = 0;
    while guard < TAG_CMDS + 1 {
        guard += 1;
        if cp >= TAG_CMDS {
            return r; // commands exhausted: the profile ends here
        }
        let command = cmds[cp];
        cp += 1;
        let tagcode = command & 63;
        if tagcode == 0 {
            r.main_reached = true;
            return r;
        }
        let mut tag = [0u8; 4];
        if tagcode == 1 {
            if dp + 4 > TAG_DATA {
                r.err = true;
                return r;
            }
            tag.copy_from_slice(&data[dp..dp + 4]);
            dp += 4;
        } else if tagcode == 2 {
            tag = *b"rTRC";
        } else if tagcode == 3 {
            tag = *b"rXYZ";
        } else if tagcode <= 20 {
            tag = *SPEC_TAGS[(tagcode - 4) as usize];
        } else {
            r.err = true;
            return r;
        }
        let mut e = false;
        let start = if command & 64 != 0 { varint(&mut cp, &mut e) } else { prev_start + prev_size };
        if e {
            r.err = true;
            return r;
        }
        let mut size = prev_size;
        if &tag == b"rXYZ" || &tag == b"gXYZ" || &tag == b"bXYZ" || &tag == b"kXYZ" || &tag == b"wtpt" || &tag == b"bkpt" || &tag == b"lumi" {
            size = 20;
        }
        if command & 128 != 0 {
            size = varint(&mut cp, &mut e);
            if e {
                r.err = true;
                return r;
            }
        }
        if start + size > output_size {
            r.err = true;
            return r;
        }
        prev_start = start;
        prev_size = size;
        put(&mut r, &tag);
        put(&mut r, &(start as u32).to_be_bytes());
        put(&mut r, &(size as u32).to_be_bytes());
        if tagcode == 2 {
            put(&mut r, b"gTRC");
            put(&mut r, &(start as u32).to_be_bytes());
            put(&mut r, &(size as u32).to_be_bytes());
            put(&mut r, b"bTRC");
            put(&mut r, &(start as u32).to_be_bytes());
            put(&mut r, &(size as u32).to_be_bytes());
        } else if tagcode == 3 {
            put(&mut r, b"gXYZ");
            put(&mut r, &((start + size) as u32).to_be_bytes());
            put(&mut r, &(size as u32).to_be_bytes());
            put(&mut r, b"bXYZ");
            put(&mut r, &((start + 2 * size) as u32).to_be_bytes());
            put(&mut r, &(size as u32).to_be_bytes());
        }
    }
    r
}

fn icc_tag_list_case<const TAG_CMDS: usize, const STREAM: usize>() {
    const OUTPUT_SIZE: usize = 180;
    let count_byte: u8 = kani::any();
    kani::assume(count_byte < 128);
    let cmds: [u8; TAG_CMDS] = kani::any();
    let data: [u8; TAG_DATA] = kani::any();
    let want = spec_tag_list::<TAG_CMDS>(count_byte, &cmds, &data, OUTPUT_SIZE as u64);
    kani::assume(!want.main_reached);
    // the table must fit the part of the profile this harness models
    kani::assume(want.err || want.len <= TAG_OUT);

    // stream: varint(output_size) varint(commands_size) commands header-residuals data
    let mut stream = [0u8; STREAM];
    stream[0] = (OUTPUT_SIZE & 127) as u8 | 128;
    stream[1] = (OUTPUT_SIZE >> 7) as u8;
    stream[2] = (1 + TAG_CMDS) as u8;
    stream[3] = count_byte;
    let mut i = 0;
    while i < TAG_CMDS {
        stream[4 + i] = cmds[i];
        i += 1;
    }
    let mut i = 0;
    while i < TAG_DATA {
        stream[4 + TAG_CMDS + 128 + i] = data[i];
        i += 1;
    }
    match decode_icc(&stream[..]) {
        Err(e) => {
            assert!(want.err, "a tag list the specification accepts was rejected");
            core::mem::forget(e);
        }
        Ok(out) => {
            assert!(!want.err, "a tag list the specification rejects was accepted");
            assert!(out.len() == want.len);
            let k: usize = kani::any();
            kani::assume(k >= 128 && k < want.len);
            assert!(out[k] == want.out[k]);
            kani::cover!(want.len == 128 + 4 + 36 && cmds[0] & 63 == 3, "rXYZ/gXYZ/bXYZ triple emitted");
            kani::cover!(want.len >= 128 + 4 + 24 && cmds[0] & 63 == 20, "lumi with implied size followed by another tag");
            kani::cover!(cmds[0] & 63 == 1 && cmds[0] & 192 == 192, "raw tag with explicit offset and size");
            core::mem::forget(out);
        }
    }
}

// @prop C18 C01
// @tier experimental
// @unit jxl_color::icc::decode_icc: tag-list interpreter (E.4.4) after a header with zero residuals
// @sym the tag-count byte (< 128), 3 command bytes and 8 data bytes, all symbolic; output size 180 (concrete: it sizes the output allocation); header residuals zero
// @bound command strings of 3 bytes after the count (one tag with explicit one-byte offset and size, or up to 3 tags with implied ones; 5 bytes in the thorough tier), at most two raw tag names; inputs in which a tag code 0 hands over to the main-content interpreter are assumed away
// @assume stubs: Vec::push / Vec::extend_from_slice write in place and assert the capacity reserved by decode_icc suffices
// @unwindset jxl_color::icc::decode_icc$ 0 130
// @unwindset jxl_color::icc::decode_icc$ 1 5
// @oblig accept/reject and every byte of the emitted tag table (count, names incl. all 19 short codes, implied and explicit offsets, implied sizes - 20 for the XYZ-type tags and lumi, else the previous size -, the rTRC/gTRC/bTRC and rXYZ/gXYZ/bXYZ triples) equal the tag-list procedure of E.4.4
#[kani::proof]
#[kani::unwind(12)]
#[kani::stub(std::vec::Vec::push, icc_push_stub)]
#[kani::stub(std::vec::Vec::extend_from_slice, icc_extend_stub)]
pub fn c18_icc_tag_list_matches_spec() {
    icc_tag_list_case::<3, { 3 + 1 + 3 + 128 + TAG_DATA }>();
}

// @prop C18 C01
// @tier experimental
// @unit jxl_color::icc::decode_icc: tag-list interpreter (E.4.4)
// @sym as c18_icc_tag_list_matches_spec with 5 command bytes
// @bound command strings of 5 bytes after the count
// @assume as c18_icc_tag_list_matches_spec
// @unwindset jxl_color::icc::decode_icc$ 0 130
// @unwindset jxl_color::icc::decode_icc$ 1 7
// @oblig as c18_icc_tag_list_matches_spec
#[kani::proof]
#[kani::unwind(12)]
#[kani::stub(std::vec::Vec::push, icc_push_stub)]
#[kani::stub(std::vec::Vec::extend_from_slice, icc_extend_stub)]
pub fn c18_icc_tag_list_5_commands() {
    icc_tag_list_case::<5, { 3 + 1 + 5 + 128 + TAG_DATA }>();
}

// @prop C18 C01
// @tier experimental
// @unit jxl_color::icc::decode_icc: tag offsets and sizes of any width (E.4.4)
// @sym one tag command (any short tag code 4..=20, explicit offset, implied size), the offset a 5-byte varint whose lowest and highest 7 bits are symbolic (values k + j*2^28); output size 180
// @bound one tag; varints of exactly 5 bytes for the offset (the widths the 3-byte harness cannot reach)
// @assume stubs as c18_icc_tag_list_matches_spec
// @unwindset jxl_color::icc::decode_icc$ 0 130
// @unwindset jxl_color::icc::decode_icc$ 1 3
// @oblig a tag whose offset + size lies beyond the announced profile size is rejected whatever the width of the number (finding F06: offsets >= 2^32 were truncated to 32 bits before the check); one inside is emitted with exactly that offset
#[kani::proof]
#[kani::unwind(12)]
#[kani::stub(std::vec::Vec::push, icc_push_stub)]
#[kani::stub(std::vec::Vec::extend_from_slice, icc_extend_stub)]
pub fn c18_icc_tag_offset_beyond_profile_rejected() {
    const OUTPUT_SIZE: usize = 180;
    let tagcode: u8 = kani::any();
    kani::assume(tagcode >= 4 && tagcode <= 20);
    // offset = low7 + top * 2^28 as a 5-byte varint; the middle bytes are concrete continuation
    // bytes so that the symbolic executor knows where the number ends
    let low7: u8 = kani::any();
    kani::assume(low7 < 128);
    let top: u8 = kani::any();
    kani::assume(top < 128);
    let offset = low7 as u64 | (top as u64) << 28;
    let tag = SPEC_TAGS[(tagcode - 4) as usize];
    let size: u64 = if tag == b"rXYZ" || tag == b"gXYZ" || tag == b"bXYZ" || tag == b"kXYZ" || tag == b"wtpt" || tag == b"bkpt" || tag == b"lumi" { 20 } else { 0 };
    let mut stream = [0u8; 3 + 7 + 128];
    stream[0] = (OUTPUT_SIZE & 127) as u8 | 128;
    stream[1] = (OUTPUT_SIZE >> 7) as u8;
    stream[2] = 7;
    stream[3] = 2; // one tag
    stream[4] = tagcode | 64;
    stream[5] = low7 + 128;
    stream[6] = 128;
    stream[7] = 128;
    stream[8] = 128;
    stream[9] = top;
    match decode_icc(&stream[..]) {
        Err(e) => {
            assert!(offset + size > OUTPUT_SIZE as u64, "a tag inside the profile was rejected");
            core::mem::forget(e);
        }
        Ok(out) => {
            assert!(offset + size <= OUTPUT_SIZE as u64, "a tag beyond the announced profile size was accepted");
            assert!(out.len() == 128 + 4 + 12);
            assert!(out[136] == 0 && out[137] == 0 && out[138] == 0 && out[139] == offset as u8);
            assert!(out[143] == size as u8);
            kani::cover!(offset == 100 && size == 20, "implied size 20 inside the profile");
            core::mem::forget(out);
        }
    }
}
