//! jxl-color ICC decoding: C18 (embedded ICC returned byte-exactly) at unit level, C01.
use jxl_color::icc::decode_icc;
use jxl_color::icc::verif as iv;

/// ISO/IEC 18181-1 E.4.2 context of the ICC byte stream.
fn spec_icc_ctx(i: usize, b1: u8, b2: u8) -> u32 {
    if i <= 128 {
        return 0;
    }
    let letter = |b: u8| (b >= b'a' && b <= b'z') || (b >= b'A' && b <= b'Z');
    let digitish = |b: u8| (b >= b'0' && b <= b'9') || b == b'.' || b == b',';
    let p1 = if letter(b1) {
        0
    } else if digitish(b1) {
        1
    } else if b1 <= 1 {
        2 + b1 as u32
    } else if b1 > 1 && b1 < 16 {
        4
    } else if b1 > 240 && b1 < 255 {
        5
    } else if b1 == 255 {
        6
    } else {
        7
    };
    let p2 = if letter(b2) {
        0
    } else if digitish(b2) {
        1
    } else if b2 < 16 {
        2
    } else if b2 > 240 {
        3
    } else {
        4
    };
    1 + p1 + 8 * p2
}

/// ISO/IEC 18181-1 E.4.3 predicted ICC header byte.
fn spec_predict_header(i: usize, output_size: u32, header: &[u8; 128]) -> u8 {
    const DEFAULT: &[u8; 24] = b"\0\0\0\0\0\0\0\0\x04\0\0\0mntrRGB XYZ ";
    if i < 4 {
        return output_size.to_be_bytes()[i];
    }
    if i < 24 {
        return DEFAULT[i];
    }
    if i >= 36 && i < 40 {
        return b"acsp"[i - 36];
    }
    if i == 41 || i == 42 || i == 43 {
        let a = header[40];
        if a == b'A' {
            return [b'P', b'P', b'L'][i - 41];
        }
        if a == b'M' {
            return [b'S', b'F', b'T'][i - 41];
        }
        if i >= 42 && a == b'S' {
            if header[41] == b'G' {
                return [b'I', b' '][i - 42];
            }
            if header[41] == b'U' {
                return [b'N', b'W'][i - 42];
            }
        }
        return 0;
    }
    match i {
        70 => 246,
        71 => 214,
        73 => 1,
        78 => 211,
        79 => 45,
        80..=83 => header[4 + i - 80],
        _ => 0,
    }
}

/// Reference shuffle of E.4.4 (as in the reference implementation): the input is `width` rows of
/// `ceil(size/width)` columns in row-major order; the output reads it column by column.
fn spec_shuffle<const N: usize>(data: &[u8; N], width: usize) -> [u8; N] {
    let height = (N + width - 1) / width;
    let mut out = [0u8; N];
    let mut s = 0;
    let mut j = 0;
    let mut i = 0;
    while i < N {
        out[i] = data[j];
        j += height;
        if j >= N {
            s += 1;
            j = s;
        }
        i += 1;
    }
    out
}

// @prop C18
// @tier quick
// @unit jxl_color::icc::decode::get_icc_ctx
// @sym every index, previous byte and byte before
// @bound complete
// @oblig equals the context function of ISO/IEC 18181-1 E.4.2 (41 contexts)
#[kani::proof]
#[kani::unwind(2)]
pub fn c18_icc_context_function() {
    let i: usize = kani::any();
    let (b1, b2): (u8, u8) = (kani::any(), kani::any());
    let c = iv::get_icc_ctx(i, b1, b2);
    assert!(c == spec_icc_ctx(i, b1, b2));
    assert!(c < 41);
    kani::cover!(c == 40, "highest context");
    kani::cover!(i == 128 && c == 0, "header context at index 128");
}

fn shuffle_case<const N: usize>() {
    let data: [u8; N] = kani::any();
    let s2 = iv::shuffle2(&data[..]);
    let w2 = spec_shuffle::<N>(&data, 2);
    assert!(s2.len() == N);
    let s4 = iv::shuffle4(&data[..]);
    let w4 = spec_shuffle::<N>(&data, 4);
    assert!(s4.len() == N);
    let i: usize = kani::any();
    kani::assume(i < N);
    assert!(s2[i] == w2[i]);
    // 4-way shuffle of a ragged length (n >= 5, n % 4 in {1, 2}): the reference implementation's
    // index walk and an even distribution of the remainder over the rows give different
    // permutations, and jxl-oxide implements the latter. Which one the standard's text mandates
    // could not be settled offline (DESIGN section 8); only the unambiguous lengths are asserted.
    if N < 5 || N % 4 == 0 || N % 4 == 3 {
        assert!(s4[i] == w4[i]);
    }
    core::mem::forget(s2);
    core::mem::forget(s4);
}

// @prop C18
// @tier quick
// @unit jxl_color::icc::decode::{shuffle2,shuffle4}
// @sym byte strings of every length 1..=9 (lengths enumerated, contents symbolic)
// @bound lengths up to 9 (every residue of the length modulo 2 and 4 occurs twice)
// @oblig equals the specification's shuffle (transposition of a width x ceil(n/width) matrix with a ragged last column); for the 4-way shuffle only lengths with n < 5 or n % 4 in {0, 3} are asserted (see DESIGN section 8: unresolved divergence from the reference implementation for the other ragged lengths)
#[kani::proof]
#[kani::unwind(11)]
pub fn c18_icc_shuffles_match_spec() {
    shuffle_case::<1>();
    shuffle_case::<2>();
    shuffle_case::<3>();
    shuffle_case::<4>();
    shuffle_case::<5>();
    shuffle_case::<6>();
    shuffle_case::<7>();
    shuffle_case::<8>();
    shuffle_case::<9>();
    kani::cover!(true, "all lengths executed");
}

// @prop C18
// @tier quick
// @unit jxl_color::icc::decode::predict_header
// @sym every header position 0..128, any output size, any 128 header bytes
// @bound complete over the 128-byte header
// @oblig equals the header prediction table of ISO/IEC 18181-1 E.4.3 (size bytes, 'mntrRGB XYZ ', 'acsp', platform signatures APPL/MSFT/SGI /SUNW, illuminant, creator copy)
#[kani::proof]
#[kani::unwind(2)]
pub fn c18_icc_header_prediction_table() {
    let header: [u8; 128] = kani::any();
    let size: u32 = kani::any();
    let i: usize = kani::any();
    kani::assume(i < 128);
    assert!(iv::predict_header(i, size, &header[..]) == spec_predict_header(i, size, &header));
    kani::cover!(i == 43 && header[40] == b'S' && header[41] == b'U', "SUNW platform");
    kani::cover!(i == 82, "creator copy");
}

// @prop C18 C01
// @tier quick
// @unit jxl_color::icc::decode_icc (header-only profiles: output_size <= 128)
// @sym output size 40 (concrete: the output allocation must be concrete), all 40 residual bytes symbolic, the compared position symbolic
// @bound one profile size below the header length; no commands
// @oblig the decoded profile is prediction + residual (mod 256) at every position, of exactly the announced size
#[kani::proof]
#[kani::unwind(42)]
pub fn c18_decode_icc_header_only_profile() {
    let mut stream = [0u8; 42];
    stream[0] = 40; // output_size
    stream[1] = 0; // commands_size
    let residual: [u8; 40] = kani::any();
    stream[2..].copy_from_slice(&residual);
    let out = decode_icc(&stream[..]).unwrap();
    assert!(out.len() == 40);
    let mut hdr = [0u8; 128];
    hdr[..40].copy_from_slice(&residual);
    let i: usize = kani::any();
    kani::assume(i < 40);
    assert!(out[i] == spec_predict_header(i, 40, &hdr).wrapping_add(residual[i]));
    kani::cover!(i == 39 && out[i] == b'p', "last byte of 'acsp' reproduced");
    core::mem::forget(out);
}
