//! jxl-image: header bundles (C14), BitDepth sample conversion (C01, C15).
use crate::spec::bitwriter::*;
use jxl_bitstream::Bitstream;
use jxl_image::BitDepth;
use jxl_oxide_common::Bundle;

// @prop C01 C15
// @tier quick
// @unit jxl_image::BitDepth::{parse,parse_integer_sample,bits_per_sample}
// @sym 2 header bytes (every BitDepth encoding: integer 8/10/12/1..64 bits, float with every exponent width), every i32 sample
// @bound complete: every BitDepth the parser accepts x every i32 sample
// @oblig parse returns Ok/Err without panicking; for every accepted depth, converting any decoded sample to f32 does not panic or overflow in a checked build; integer depths 1..=31 are accepted and map 2^bits-1 to exactly 1.0 and 0 to 0.0
#[kani::proof]
#[kani::unwind(9)]
pub fn c01_bit_depth_sample_conversion_total() {
    let bytes: [u8; 2] = kani::any();
    let mut bs = Bitstream::new(&bytes[..]);
    let r = BitDepth::parse(&mut bs, ());
    match r {
        Err(e) => core::mem::forget(e),
        Ok(depth) => {
            let sample: i32 = kani::any();
            let v = depth.parse_integer_sample(sample);
            if let BitDepth::IntegerSample { bits_per_sample } = depth {
                assert!(bits_per_sample >= 1 && bits_per_sample <= 31);
                if sample == 0 {
                    assert!(v == 0.0);
                }
                if bits_per_sample <= 24 && sample == (1i32 << bits_per_sample) - 1 {
                    assert!(v == 1.0);
                }
                kani::cover!(bits_per_sample == 31, "31-bit integer samples");
                kani::cover!(bits_per_sample == 1, "1-bit integer samples");
            } else {
                kani::cover!(true, "float samples");
            }
        }
    }
}
