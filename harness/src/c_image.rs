//! jxl-image: header bundles (C14), BitDepth sample conversion (C01, C15).
use crate::spec::bitwriter::*;
use jxl_bitstream::Bitstream;
use jxl_image::BitDepth;
use jxl_oxide_common::Bundle;

// @prop C01 C15
// @tier quick
// @unit jxl_image::BitDepth::{parse,parse_integer_sample,bits_per_sample}
// @sym 2 header bytes (every BitDepth encoding: integer 8/10/12/1..64 bits, float with every exponent width), every i32 sample
// @bound complete: every BitDepth the parser accepts x every i32 sample
// @oblig parse returns Ok/Err without panicking; for every accepted depth, converting any decoded sample to f32 does not panic or overflow in a checked build; integer depths 1..=31 are accepted and map 2^bits-1 to exactly 1.0 and 0 to 0.0
#[kani::proof]
#[kani::unwind(9)]
pub fn c01_bit_depth_sample_conversion_total() {
    let bytes: [u8; 2] = kani::any();
    let mut bs = Bitstream::new(&bytes[..]);
    let r = BitDepth::parse(&mut bs, ());
    match r {
        Err(e) => core::mem::forget(e),
        Ok(depth) => {
            let sample: i32 = kani::any();
            let v = depth.parse_integer_sample(sample);
            if let BitDepth::IntegerSample { bits_per_sample } = depth {
                assert!(bits_per_sample >= 1 && bits_per_sample <= 31);
                if sample == 0 {
                    assert!(v == 0.0);
                }
                if bits_per_sample <= 24 && sample == (1i32 << bits_per_sample) - 1 {
                    assert!(v == 1.0);
                }
                kani::cover!(bits_per_sample == 31, "31-bit integer samples");
                kani::cover!(bits_per_sample == 1, "1-bit integer samples");
            } else {
                kani::cover!(true, "float samples");
            }
        }
    }
}

const SIZE_DIST: [U32Dist; 4] = [U32Dist::Bits(1, 9), U32Dist::Bits(1, 13), U32Dist::Bits(1, 18), U32Dist::Bits(1, 30)];

/// ISO/IEC 18181-1 A.4 aspect ratios of SizeHeader.
fn spec_ratio_width(ratio: u32, height: u32) -> u64 {
    let h = height as u64;
    match ratio {
        1 => h,
        2 => h * 12 / 10,
        3 => h * 4 / 3,
        4 => h * 3 / 2,
        5 => h * 16 / 9,
        6 => h * 5 / 4,
        _ => h * 2,
    }
}

// @prop C14
// @tier quick
// @unit jxl_image::SizeHeader::parse (define_bundle conditional layout, compute_default_width)
// @sym every encoding of SizeHeader: div8 form (5-bit sizes) or explicit form with every U32 selector, ratio 0..=7, any width/height values the selectors can express; 0..=3 junk bits before and junk after
// @bound complete over the bundle
// @oblig reported height and width equal what was written (width derived from the aspect-ratio code when ratio != 0); parsing stops exactly at the writer's bit
#[kani::proof]
#[kani::unwind(9)]
pub fn c14_size_header_roundtrip() {
    let lead: usize = kani::any();
    kani::assume(lead <= 3);
    let mut w = BitWriter::new();
    w.put(kani::any::<u64>(), lead);
    let div8: bool = kani::any();
    let ratio: u32 = kani::any();
    kani::assume(ratio <= 7);
    let height: u32;
    let mut width: u32 = 0;
    w.put_bool(div8);
    if div8 {
        let h8: u32 = kani::any();
        kani::assume(h8 >= 1 && h8 <= 32);
        w.put((h8 - 1) as u64, 5);
        height = 8 * h8;
    } else {
        let sel: usize = kani::any();
        kani::assume(sel < 4);
        height = kani::any();
        kani::assume(put_u32(&mut w, SIZE_DIST, sel, height));
    }
    w.put(ratio as u64, 3);
    if ratio == 0 {
        if div8 {
            let w8: u32 = kani::any();
            kani::assume(w8 >= 1 && w8 <= 32);
            w.put((w8 - 1) as u64, 5);
            width = 8 * w8;
        } else {
            let sel: usize = kani::any();
            kani::assume(sel < 4);
            width = kani::any();
            kani::assume(put_u32(&mut w, SIZE_DIST, sel, width));
        }
    }
    let expect_bits = w.nbits;
    w.put(kani::any::<u64>(), 9);
    let bytes = w.bytes();
    let mut bs = Bitstream::new(&bytes[..]);
    bs.read_bits(lead).unwrap();
    let sh = jxl_image::SizeHeader::parse(&mut bs, ()).unwrap();
    assert!(sh.height == height);
    if ratio == 0 {
        assert!(sh.width == width);
    } else {
        assert!(sh.width as u64 == spec_ratio_width(ratio, height) & 0xffff_ffff);
    }
    assert!(bs.num_read_bits() == expect_bits);
    kani::cover!(!div8 && ratio == 5 && height > 1 << 20, "16:9 ratio with a large explicit height");
    kani::cover!(div8 && ratio == 0, "div8 form with explicit width");
    core::mem::forget(sh);
}

// @prop C14
// @tier quick
// @unit jxl_image::BitDepth::parse
// @sym every encoding: integer samples with every U32 selector (8, 10, 12, 1+u(6)) and float samples (32, 16, 24, 1+u(6) with 4-bit exponent width)
// @bound complete over the bundle
// @oblig accepted iff the format's validity rules hold (integer: bits <= 31; float: exponent bits 2..=8, mantissa bits 2..=23); reported values equal what was written; exact bit count
#[kani::proof]
#[kani::unwind(9)]
pub fn c14_bit_depth_roundtrip() {
    let mut w = BitWriter::new();
    let float: bool = kani::any();
    let sel: usize = kani::any();
    kani::assume(sel < 4);
    let bits: u32 = kani::any();
    let mut exp_bits: u32 = 0;
    w.put_bool(float);
    if float {
        kani::assume(put_u32(&mut w, [U32Dist::Val(32), U32Dist::Val(16), U32Dist::Val(24), U32Dist::Bits(1, 6)], sel, bits));
        let e: u32 = kani::any();
        kani::assume(e <= 15);
        w.put(e as u64, 4);
        exp_bits = e + 1;
    } else {
        kani::assume(put_u32(&mut w, [U32Dist::Val(8), U32Dist::Val(10), U32Dist::Val(12), U32Dist::Bits(1, 6)], sel, bits));
    }
    let expect_bits = w.nbits;
    w.put(kani::any::<u64>(), 9);
    let bytes = w.bytes();
    let mut bs = Bitstream::new(&bytes[..]);
    let r = BitDepth::parse(&mut bs, ());
    let valid = if float {
        exp_bits >= 2 && exp_bits <= 8 && bits >= exp_bits + 1 + 2 && bits - exp_bits - 1 <= 23
    } else {
        bits <= 31
    };
    match r {
        Ok(d) => {
            assert!(valid);
            assert!(bs.num_read_bits() == expect_bits);
            match d {
                BitDepth::IntegerSample { bits_per_sample } => assert!(!float && bits_per_sample == bits),
                BitDepth::FloatSample { bits_per_sample, exp_bits: e } => assert!(float && bits_per_sample == bits && e == exp_bits),
            }
            kani::cover!(float && bits == 16 && exp_bits == 5, "half-float samples");
            kani::cover!(!float && bits == 31, "31-bit integer samples");
        }
        Err(e) => {
            assert!(!valid);
            core::mem::forget(e);
        }
    }
}

// @prop C14
// @tier quick
// @unit jxl_image::AnimationHeader::parse
// @sym every encoding: tps numerator/denominator and loop count with every U32 selector and value, timecode flag
// @bound complete over the bundle
// @oblig all four fields equal what was written; exact bit count
#[kani::proof]
#[kani::unwind(9)]
pub fn c14_animation_header_roundtrip() {
    let mut w = BitWriter::new();
    let (s0, s1, s2): (usize, usize, usize) = (kani::any(), kani::any(), kani::any());
    kani::assume(s0 < 4 && s1 < 4 && s2 < 4);
    let (num, den, loops): (u32, u32, u32) = (kani::any(), kani::any(), kani::any());
    let tc: bool = kani::any();
    kani::assume(put_u32(&mut w, [U32Dist::Val(100), U32Dist::Val(1000), U32Dist::Bits(1, 10), U32Dist::Bits(1, 30)], s0, num));
    kani::assume(put_u32(&mut w, [U32Dist::Val(1), U32Dist::Val(1001), U32Dist::Bits(1, 8), U32Dist::Bits(1, 10)], s1, den));
    kani::assume(put_u32(&mut w, [U32Dist::Val(0), U32Dist::Bits(0, 3), U32Dist::Bits(0, 16), U32Dist::Bits(0, 32)], s2, loops));
    w.put_bool(tc);
    let expect_bits = w.nbits;
    w.put(kani::any::<u64>(), 9);
    let bytes = w.bytes();
    let mut bs = Bitstream::new(&bytes[..]);
    let a = jxl_image::AnimationHeader::parse(&mut bs, ()).unwrap();
    assert!(a.tps_numerator == num && a.tps_denominator == den && a.num_loops == loops && a.have_timecodes == tc);
    assert!(bs.num_read_bits() == expect_bits);
    kani::cover!(s2 == 3 && loops == u32::MAX, "32-bit loop count");
    kani::cover!(s0 == 1 && s1 == 1, "1000/1001 ticks");
}

const PREVIEW_DIV8_DIST: [U32Dist; 4] = [U32Dist::Val(16), U32Dist::Val(32), U32Dist::Bits(1, 5), U32Dist::Bits(33, 9)];
const PREVIEW_DIST: [U32Dist; 4] = [U32Dist::Bits(1, 6), U32Dist::Bits(65, 8), U32Dist::Bits(321, 10), U32Dist::Bits(1345, 12)];

// @prop C14
// @tier quick
// @unit jxl_image::PreviewHeader::parse (conditional layout, SizeHeader::compute_default_width)
// @sym every encoding of PreviewHeader: div8 form (U32(16, 32, 1+u(5), 33+u(9)) for both sides) or explicit form (U32(1+u(6), 65+u(8), 321+u(10), 1345+u(12))), every selector and value, ratio 0..=7
// @bound complete over the bundle
// @oblig reported height and width equal what was written (width from the aspect-ratio code when ratio != 0, as A.4 defines it for the preview); exact bit count
#[kani::proof]
#[kani::unwind(9)]
pub fn c14_preview_header_roundtrip() {
    let mut w = BitWriter::new();
    let div8: bool = kani::any();
    let ratio: u32 = kani::any();
    kani::assume(ratio <= 7);
    let (s0, s1): (usize, usize) = (kani::any(), kani::any());
    kani::assume(s0 < 4 && s1 < 4);
    let (hv, wv): (u32, u32) = (kani::any(), kani::any());
    w.put_bool(div8);
    let height = if div8 {
        kani::assume(put_u32(&mut w, PREVIEW_DIV8_DIST, s0, hv));
        8 * hv
    } else {
        kani::assume(put_u32(&mut w, PREVIEW_DIST, s0, hv));
        hv
    };
    w.put(ratio as u64, 3);
    let mut width = 0;
    if ratio == 0 {
        width = if div8 {
            kani::assume(put_u32(&mut w, PREVIEW_DIV8_DIST, s1, wv));
            8 * wv
        } else {
            kani::assume(put_u32(&mut w, PREVIEW_DIST, s1, wv));
            wv
        };
    }
    let expect_bits = w.nbits;
    w.put(kani::any::<u64>(), 9);
    let bytes = w.bytes();
    let mut bs = Bitstream::new(&bytes[..]);
    let p = jxl_image::PreviewHeader::parse(&mut bs, ()).unwrap();
    assert!(p.height == height);
    if ratio == 0 {
        assert!(p.width == width);
    } else {
        assert!(p.width as u64 == spec_ratio_width(ratio, height));
    }
    assert!(bs.num_read_bits() == expect_bits);
    kani::cover!(div8 && s0 == 3 && ratio == 3, "largest div8 form with 4:3 ratio");
    kani::cover!(!div8 && ratio == 0 && s1 == 3, "explicit 12-bit width");
}

const XY_DIST: [U32Dist; 4] = [U32Dist::Bits(0, 19), U32Dist::Bits(524288, 19), U32Dist::Bits(1048576, 20), U32Dist::Bits(2097152, 21)];

// @prop C14
// @tier quick
// @unit jxl_image::Customxy::parse (U32 with UnpackSigned)
// @sym every encoding of both coordinates: every selector, every raw value
// @bound complete over the bundle
// @oblig x and y equal UnpackSigned of the written unsigned values (even u -> u/2, odd u -> -(u+1)/2); exact bit count
#[kani::proof]
#[kani::unwind(9)]
pub fn c14_customxy_roundtrip() {
    let mut w = BitWriter::new();
    let (s0, s1): (usize, usize) = (kani::any(), kani::any());
    kani::assume(s0 < 4 && s1 < 4);
    let (ux, uy): (u32, u32) = (kani::any(), kani::any());
    kani::assume(put_u32(&mut w, XY_DIST, s0, ux));
    kani::assume(put_u32(&mut w, XY_DIST, s1, uy));
    let expect_bits = w.nbits;
    w.put(kani::any::<u64>(), 9);
    let bytes = w.bytes();
    let mut bs = Bitstream::new(&bytes[..]);
    let c = jxl_image::color::Customxy::parse(&mut bs, ()).unwrap();
    let unpack = |u: u32| -> i64 { if u % 2 == 0 { (u / 2) as i64 } else { -(((u as i64) + 1) / 2) } };
    assert!(c.x as i64 == unpack(ux));
    assert!(c.y as i64 == unpack(uy));
    assert!(bs.num_read_bits() == expect_bits);
    kani::cover!(s0 == 3 && ux % 2 == 1, "negative x in the widest form");
    kani::cover!(uy == 0, "zero");
}

// @prop C14
// @tier quick
// @unit jxl_image::color::ToneMapping::parse (all_default, three F16 fields, one flag)
// @sym all_default or any three half-float bit patterns and the flag
// @bound complete over the bundle
// @oblig all_default yields 255 / 0 / false / 0; otherwise each field is exactly the half float written (NaN and infinities rejected); exact bit count
#[kani::proof]
#[kani::unwind(9)]
pub fn c14_tone_mapping_roundtrip() {
    let mut w = BitWriter::new();
    let all_default: bool = kani::any();
    let (h0, h1, h2): (u16, u16, u16) = (kani::any(), kani::any(), kani::any());
    let rel: bool = kani::any();
    w.put_bool(all_default);
    if !all_default {
        w.put(h0 as u64, 16);
        w.put(h1 as u64, 16);
        w.put_bool(rel);
        w.put(h2 as u64, 16);
    }
    let expect_bits = w.nbits;
    w.put(kani::any::<u64>(), 9);
    let bytes = w.bytes();
    let mut bs = Bitstream::new(&bytes[..]);
    match jxl_image::color::ToneMapping::parse(&mut bs, ()) {
        Ok(t) => {
            if all_default {
                assert!(t.intensity_target == 255.0 && t.min_nits == 0.0 && !t.relative_to_max_display && t.linear_below == 0.0);
            } else {
                let (f0, f1, f2) = (f16_bits_to_f32_bits(h0), f16_bits_to_f32_bits(h1), f16_bits_to_f32_bits(h2));
                assert!(f0.is_some() && f1.is_some() && f2.is_some());
                assert!(t.intensity_target.to_bits() == f0.unwrap());
                assert!(t.min_nits.to_bits() == f1.unwrap());
                assert!(t.linear_below.to_bits() == f2.unwrap());
                assert!(t.relative_to_max_display == rel);
            }
            assert!(bs.num_read_bits() == expect_bits);
            kani::cover!(!all_default && rel, "explicit tone mapping");
        }
        Err(e) => {
            assert!(!all_default);
            assert!(f16_bits_to_f32_bits(h0).is_none() || f16_bits_to_f32_bits(h1).is_none() || f16_bits_to_f32_bits(h2).is_none());
            core::mem::forget(e);
        }
    }
}

/// Custom xy with concrete selectors (so that the writer's bit positions stay concrete) and
/// symbolic values; symbolic selectors are covered by c14_customxy_roundtrip.
fn put_customxy(w: &mut BitWriter, s0: usize, s1: usize) -> (i64, i64) {
    let (ux, uy): (u32, u32) = (kani::any(), kani::any());
    kani::assume(put_u32(w, XY_DIST, s0, ux));
    kani::assume(put_u32(w, XY_DIST, s1, uy));
    let unpack = |u: u32| -> i64 { if u % 2 == 0 { (u / 2) as i64 } else { -(((u as i64) + 1) / 2) } };
    (unpack(ux), unpack(uy))
}

fn xy_eq(c: &jxl_image::color::Customxy, want: (i64, i64)) -> bool {
    c.x as i64 == want.0 && c.y as i64 == want.1
}

/// One ColourEncoding layout: colour space, white point code and primaries code are concrete (they
/// fix which fields exist, and keeping them concrete keeps the writer's bit positions concrete up to
/// the first custom coordinate); everything else is symbolic.
fn colour_encoding_case(cs: u32, wp: u32, pr: u32, want_icc: bool, have_gamma: bool) {
    use jxl_image::color::*;
    let mut w = BitWriter::new();
    w.put_bool(false); // all_default
    let gamma: u32 = kani::any();
    kani::assume(gamma < (1 << 24));
    let tf: u32 = kani::any();
    kani::assume(tf == 1 || tf == 2 || tf == 8 || tf == 13 || tf == 16 || tf == 17 || tf == 18);
    let ri: u32 = kani::any();
    kani::assume(ri <= 3);
    let mut white = (0, 0);
    let mut prim = [(0, 0); 3];
    w.put_bool(want_icc);
    assert!(put_enum(&mut w, cs));
    if !want_icc {
        assert!(put_enum(&mut w, wp));
        if wp == 2 {
            white = put_customxy(&mut w, 0, 3);
        }
        if cs != 1 {
            assert!(put_enum(&mut w, pr));
            if pr == 2 {
                prim[0] = put_customxy(&mut w, 1, 2);
                prim[1] = put_customxy(&mut w, 3, 0);
                prim[2] = put_customxy(&mut w, 2, 1);
            }
        }
        w.put_bool(have_gamma);
        if have_gamma {
            w.put(gamma as u64, 24);
        } else {
            kani::assume(put_enum(&mut w, tf));
        }
        kani::assume(put_enum(&mut w, ri));
    }
    let expect_bits = w.nbits;
    kani::assume(expect_bits + 9 <= BitWriter::CAP_BITS);
    w.put(kani::any::<u64>(), 9);
    let bytes = w.bytes();
    let mut bs = Bitstream::new(&bytes[..]);
    let ce = ColourEncoding::parse(&mut bs, ()).unwrap();
    assert!(bs.num_read_bits() == expect_bits);
    assert!(ce.want_icc() == want_icc);
    assert!(ce.colour_space() as u32 == cs);
    if let ColourEncoding::Enum(e) = &ce {
        match e.white_point {
            WhitePoint::D65 => assert!(wp == 1),
            WhitePoint::E => assert!(wp == 10),
            WhitePoint::Dci => assert!(wp == 11),
            WhitePoint::Custom(c) => assert!(wp == 2 && xy_eq(&c, white)),
        }
        match e.primaries {
            Primaries::Srgb => assert!(cs == 1 || pr == 1),
            Primaries::Bt2100 => assert!(cs != 1 && pr == 9),
            Primaries::P3 => assert!(cs != 1 && pr == 11),
            Primaries::Custom { red, green, blue } => assert!(cs != 1 && pr == 2 && xy_eq(&red, prim[0]) && xy_eq(&green, prim[1]) && xy_eq(&blue, prim[2])),
        }
        match e.tf {
            TransferFunction::Gamma { g, inverted } => assert!(have_gamma && g == gamma && inverted),
            TransferFunction::Bt709 => assert!(!have_gamma && tf == 1),
            TransferFunction::Unknown => assert!(!have_gamma && tf == 2),
            TransferFunction::Linear => assert!(!have_gamma && tf == 8),
            TransferFunction::Srgb => assert!(!have_gamma && tf == 13),
            TransferFunction::Pq => assert!(!have_gamma && tf == 16),
            TransferFunction::Dci => assert!(!have_gamma && tf == 17),
            TransferFunction::Hlg => assert!(!have_gamma && tf == 18),
        }
        assert!(e.rendering_intent as u32 == ri);
    }
}

// @prop C14
// @tier quick
// @unit jxl_image::color::{ColourEncoding,WhitePoint,Primaries,TransferFunction}::parse, Bitstream::read_enum
// @sym enum colour encodings: layouts (colour space, white point code, primaries code, ICC flag, gamma flag) fixed per harness; this one: RGB / D65 / sRGB primaries / named transfer function; symbolic: custom xy values (selectors fixed per coordinate; all selectors are in c14_customxy_roundtrip), any 24-bit gamma, any of the seven named transfer functions, rendering intent
// @bound one layout per harness (five harnesses: four layouts without custom coordinates, one with a custom white point); custom primaries (six chained variable-length fields) are outside: the harness for them did not finish (DESIGN 8.8); colour space XYB left out (for XYB the reference implementation skips the transfer function field while jxl-oxide reads it; which one the standard's table mandates could not be settled offline, DESIGN 8.6)
// @oblig every reported field equals what was written: colour space, ICC flag, white point incl. custom coordinates, primaries (present iff the space is not Grey), gamma or named transfer function, rendering intent; exact bit count
#[kani::proof]
#[kani::unwind(9)]
pub fn c14_colour_encoding_rgb_d65_srgb() {
    colour_encoding_case(0, 1, 1, false, false);
    kani::cover!(true, "layout executed");
}

// @prop C14
// @tier quick
// @unit jxl_image::color::{ColourEncoding,WhitePoint,Primaries,TransferFunction}::parse, Bitstream::read_enum
// @sym enum colour encodings: layouts (colour space, white point code, primaries code, ICC flag, gamma flag) fixed per harness; this one: Grey / E / gamma; symbolic: custom xy values (selectors fixed per coordinate; all selectors are in c14_customxy_roundtrip), any 24-bit gamma, any of the seven named transfer functions, rendering intent
// @bound one layout per harness (five harnesses: four layouts without custom coordinates, one with a custom white point); custom primaries (six chained variable-length fields) are outside: the harness for them did not finish (DESIGN 8.8); colour space XYB left out (for XYB the reference implementation skips the transfer function field while jxl-oxide reads it; which one the standard's table mandates could not be settled offline, DESIGN 8.6)
// @oblig every reported field equals what was written: colour space, ICC flag, white point incl. custom coordinates, primaries (present iff the space is not Grey), gamma or named transfer function, rendering intent; exact bit count
#[kani::proof]
#[kani::unwind(9)]
pub fn c14_colour_encoding_grey_e_gamma() {
    colour_encoding_case(1, 10, 1, false, true);
    kani::cover!(true, "layout executed");
}

// @prop C14
// @tier quick
// @unit jxl_image::color::{ColourEncoding,WhitePoint,Primaries,TransferFunction}::parse, Bitstream::read_enum
// @sym enum colour encodings: layouts (colour space, white point code, primaries code, ICC flag, gamma flag) fixed per harness; this one: Unknown / DCI / P3 / named transfer function; symbolic: custom xy values (selectors fixed per coordinate; all selectors are in c14_customxy_roundtrip), any 24-bit gamma, any of the seven named transfer functions, rendering intent
// @bound one layout per harness (five harnesses: four layouts without custom coordinates, one with a custom white point); custom primaries (six chained variable-length fields) are outside: the harness for them did not finish (DESIGN 8.8); colour space XYB left out (for XYB the reference implementation skips the transfer function field while jxl-oxide reads it; which one the standard's table mandates could not be settled offline, DESIGN 8.6)
// @oblig every reported field equals what was written: colour space, ICC flag, white point incl. custom coordinates, primaries (present iff the space is not Grey), gamma or named transfer function, rendering intent; exact bit count
#[kani::proof]
#[kani::unwind(9)]
pub fn c14_colour_encoding_unknown_dci_p3() {
    colour_encoding_case(3, 11, 11, false, false);
    kani::cover!(true, "layout executed");
}

// @prop C14
// @tier quick
// @unit jxl_image::color::{ColourEncoding,WhitePoint,Primaries,TransferFunction}::parse, Bitstream::read_enum
// @sym enum colour encodings: layouts (colour space, white point code, primaries code, ICC flag, gamma flag) fixed per harness; this one: Grey with the ICC flag (no further fields); symbolic: custom xy values (selectors fixed per coordinate; all selectors are in c14_customxy_roundtrip), any 24-bit gamma, any of the seven named transfer functions, rendering intent
// @bound one layout per harness (five harnesses: four layouts without custom coordinates, one with a custom white point); custom primaries (six chained variable-length fields) are outside: the harness for them did not finish (DESIGN 8.8); colour space XYB left out (for XYB the reference implementation skips the transfer function field while jxl-oxide reads it; which one the standard's table mandates could not be settled offline, DESIGN 8.6)
// @oblig every reported field equals what was written: colour space, ICC flag, white point incl. custom coordinates, primaries (present iff the space is not Grey), gamma or named transfer function, rendering intent; exact bit count
#[kani::proof]
#[kani::unwind(9)]
pub fn c14_colour_encoding_grey_icc() {
    colour_encoding_case(1, 1, 1, true, false);
    kani::cover!(true, "layout executed");
}

// @prop C14
// @tier quick
// @unit as c14_colour_encoding_rgb_d65_srgb
// @sym as c14_colour_encoding_rgb_d65_srgb for the layout RGB / custom white point / BT.2100 / gamma
// @bound one layout
// @oblig as c14_colour_encoding_rgb_d65_srgb, incl. the custom white point
#[kani::proof]
#[kani::unwind(9)]
pub fn c14_colour_encoding_custom_white_roundtrip() {
    colour_encoding_case(0, 2, 9, false, true);
    kani::cover!(true, "layout executed");
}
