//! jxl-coding: C04 (entropy decoding inverts the coding) at unit level, C01.
use crate::spec::bitwriter::*;
use crate::spec::coding::*;
use jxl_bitstream::Bitstream;
use jxl_coding::verif as cv;

fn hybrid_case(log_alphabet_size: u32) {
    // configuration through the real parser on symbolic bits
    let cfg_bytes: [u8; 2] = kani::any();
    let mut cbs = Bitstream::new(&cfg_bytes[..]);
    let conf = match cv::parse_integer_config(&mut cbs, log_alphabet_size) {
        Ok(c) => c,
        Err(e) => {
            core::mem::forget(e);
            return;
        }
    };
    // validity as the format defines it (split_exponent itself may exceed log_alphabet_size for
    // alphabets whose field is wider than needed: every token is then a literal)
    assert!(conf.msb_in_token + conf.lsb_in_token <= conf.split_exponent);
    // bits consumed by the configuration = the field widths of C.2.3
    let mut expect_bits = ceil_log2_plus1(log_alphabet_size);
    if conf.split_exponent != log_alphabet_size {
        expect_bits += ceil_log2_plus1(conf.split_exponent);
        expect_bits += ceil_log2_plus1(conf.split_exponent - conf.msb_in_token);
    }
    assert!(cbs.num_read_bits() == expect_bits as usize);

    let sc = HybridConf { split_exponent: conf.split_exponent, msb_in_token: conf.msb_in_token, lsb_in_token: conf.lsb_in_token };
    let value: u32 = kani::any();
    let (token, nbits, bits) = hybrid_encode(&sc, value);
    // only values the alphabet can express
    kani::assume((token as u64) < (1u64 << log_alphabet_size));
    let junk: u64 = kani::any();
    let mut w = BitWriter::new();
    w.put(bits as u64, nbits as usize);
    w.put(junk, 40);
    let bytes = w.bytes();
    let mut bs = Bitstream::new(&bytes[..16]);
    let _ = bs.peek_bits(0); // the caller (symbol decoder) has refilled the bit buffer
    let got = cv::read_uint_prefilled(&mut bs, &conf, token).unwrap();
    assert!(got == value);
    assert!(bs.num_read_bits() == nbits as usize);
    assert!(nbits == hybrid_nbits(&sc, token));
    kani::cover!(value == u32::MAX, "largest value");
    kani::cover!(nbits > 0 && conf.lsb_in_token > 0 && conf.msb_in_token > 0, "msb+lsb in token with extra bits");
}

// @prop C04 C01
// @tier quick
// @unit jxl_coding::{IntegerConfig::parse,DecoderInner::read_uint_prefilled,add_log2_ceil} (log_alphabet_size 15: prefix-code streams and LZ77 length config use 8)
// @sym every configuration the parser accepts from 16 symbolic bits, every u32 value expressible with that configuration, arbitrary following bits
// @bound complete for log_alphabet_size = 15
// @oblig configuration fields satisfy the format's validity rules and consume exactly the specified field widths; real decode(spec encode(value)) == value and consumes exactly the encoder's number of extra bits
#[kani::proof]
#[kani::unwind(34)]
pub fn c04_hybrid_uint_roundtrip_log15() {
    hybrid_case(15);
}

// @prop C04 C01
// @tier quick
// @unit jxl_coding::{IntegerConfig::parse,DecoderInner::read_uint_prefilled}
// @sym as the log15 harness, for log_alphabet_size 5, 6, 7, 8 (ANS streams, LZ77 length configuration)
// @bound complete for those alphabet sizes
// @oblig as the log15 harness
#[kani::proof]
#[kani::unwind(34)]
pub fn c04_hybrid_uint_roundtrip_log5_to_8() {
    hybrid_case(5);
    hybrid_case(6);
    hybrid_case(7);
    hybrid_case(8);
}

// @prop C04
// @tier quick
// @unit jxl_coding::add_log2_ceil
// @sym every u32
// @bound complete
// @oblig equals ceil(log2(x+1)), the field width the format specifies
#[kani::proof]
#[kani::unwind(34)]
pub fn c04_add_log2_ceil() {
    let x: u32 = kani::any();
    assert!(cv::add_log2_ceil(x) == ceil_log2_plus1(x));
    kani::cover!(x == u32::MAX);
    kani::cover!(x == 0);
}

// @prop C11 C04
// @tier quick
// @unit jxl_coding::DecoderInner::read_uint_prefilled (with IntegerConfig::parse for the configuration)
// @sym every configuration for log_alphabet_size 15, every encodable u32 value, input truncated to 0..=4 bytes after the token
// @bound complete for that alphabet size; up to 4 bytes of extra bits present
// @oblig when fewer bits are left than the token's extra-bit count, the read reports UnexpectedEof (never a value built from missing bits - finding F05); otherwise it returns the value
#[kani::proof]
#[kani::unwind(34)]
pub fn c11_hybrid_uint_truncated_extra_bits_is_eof() {
    let cfg_bytes: [u8; 2] = kani::any();
    let mut cbs = Bitstream::new(&cfg_bytes[..]);
    let conf = match cv::parse_integer_config(&mut cbs, 15) {
        Ok(c) => c,
        Err(e) => {
            core::mem::forget(e);
            return;
        }
    };
    let sc = HybridConf { split_exponent: conf.split_exponent, msb_in_token: conf.msb_in_token, lsb_in_token: conf.lsb_in_token };
    let value: u32 = kani::any();
    let (token, nbits, bits) = hybrid_encode(&sc, value);
    kani::assume((token as u64) < (1u64 << 15));
    let mut w = BitWriter::new();
    w.put(bits as u64, nbits as usize);
    w.put(kani::any::<u64>(), 40);
    let bytes = w.bytes();
    let len: usize = kani::any();
    kani::assume(len <= 4);
    let mut bs = Bitstream::new(&bytes[..len]);
    let _ = bs.peek_bits(0);
    let r = cv::read_uint_prefilled(&mut bs, &conf, token);
    if (nbits as usize) > 8 * len {
        match r {
            Ok(_) => panic!("a value was produced from bits that are not there"),
            Err(e) => {
                assert!(e.unexpected_eof());
                core::mem::forget(e);
            }
        }
        kani::cover!(len > 0, "truncated inside the extra bits");
    } else {
        assert!(r.unwrap() == value);
        kani::cover!(nbits > 0, "complete extra bits");
    }
}
