//! jxl-coding: C04 (entropy decoding inverts the coding) at unit level, C01.
use crate::spec::bitwriter::*;
use crate::spec::coding::*;
use jxl_bitstream::Bitstream;
use jxl_coding::verif as cv;

fn hybrid_case(log_alphabet_size: u32) {
    // configuration through the real parser on symbolic bits
    let cfg_bytes: [u8; 2] = kani::any();
    let mut cbs = Bitstream::new(&cfg_bytes[..]);
    let conf = match cv::parse_integer_config(&mut cbs, log_alphabet_size) {
        Ok(c) => c,
        Err(e) => {
            core::mem::forget(e);
            return;
        }
    };
    // validity as the format defines it (split_exponent itself may exceed log_alphabet_size for
    // alphabets whose field is wider than needed: every token is then a literal)
    assert!(conf.msb_in_token + conf.lsb_in_token <= conf.split_exponent);
    // bits consumed by the configuration = the field widths of C.2.3
    let mut expect_bits = ceil_log2_plus1(log_alphabet_size);
    if conf.split_exponent != log_alphabet_size {
        expect_bits += ceil_log2_plus1(conf.split_exponent);
        expect_bits += ceil_log2_plus1(conf.split_exponent - conf.msb_in_token);
    }
    assert!(cbs.num_read_bits() == expect_bits as usize);

    let sc = HybridConf { split_exponent: conf.split_exponent, msb_in_token: conf.msb_in_token, lsb_in_token: conf.lsb_in_token };
    let value: u32 = kani::any();
    let (token, nbits, bits) = hybrid_encode(&sc, value);
    // only values the alphabet can express
    kani::assume((token as u64) < (1u64 << log_alphabet_size));
    let junk: u64 = kani::any();
    let mut w = BitWriter::new();
    w.put(bits as u64, nbits as usize);
    w.put(junk, 40);
    let bytes = w.bytes();
    let mut bs = Bitstream::new(&bytes[..16]);
    let _ = bs.peek_bits(0); // the caller (symbol decoder) has refilled the bit buffer
    let got = cv::read_uint_prefilled(&mut bs, &conf, token).unwrap();
    assert!(got == value);
    assert!(bs.num_read_bits() == nbits as usize);
    assert!(nbits == hybrid_nbits(&sc, token));
    kani::cover!(value == u32::MAX, "largest value");
    kani::cover!(nbits > 0 && conf.lsb_in_token > 0 && conf.msb_in_token > 0, "msb+lsb in token with extra bits");
}

// @prop C04 C01
// @tier quick
// @unit jxl_coding::{IntegerConfig::parse,DecoderInner::read_uint_prefilled,add_log2_ceil} (log_alphabet_size 15: prefix-code streams and LZ77 length config use 8)
// @sym every configuration the parser accepts from 16 symbolic bits, every u32 value expressible with that configuration, arbitrary following bits
// @bound complete for log_alphabet_size = 15
// @oblig configuration fields satisfy the format's validity rules and consume exactly the specified field widths; real decode(spec encode(value)) == value and consumes exactly the encoder's number of extra bits
#[kani::proof]
#[kani::unwind(34)]
pub fn c04_hybrid_uint_roundtrip_log15() {
    hybrid_case(15);
}

// @prop C04 C01
// @tier quick
// @unit jxl_coding::{IntegerConfig::parse,DecoderInner::read_uint_prefilled}
// @sym as the log15 harness, for log_alphabet_size 5, 6, 7, 8 (ANS streams, LZ77 length configuration)
// @bound complete for those alphabet sizes
// @oblig as the log15 harness
#[kani::proof]
#[kani::unwind(34)]
pub fn c04_hybrid_uint_roundtrip_log5_to_8() {
    hybrid_case(5);
    hybrid_case(6);
    hybrid_case(7);
    hybrid_case(8);
}

// @prop C04
// @tier quick
// @unit jxl_coding::add_log2_ceil
// @sym every u32
// @bound complete
// @oblig equals ceil(log2(x+1)), the field width the format specifies
#[kani::proof]
#[kani::unwind(34)]
pub fn c04_add_log2_ceil() {
    let x: u32 = kani::any();
    assert!(cv::add_log2_ceil(x) == ceil_log2_plus1(x));
    kani::cover!(x == u32::MAX);
    kani::cover!(x == 0);
}

// @prop C11 C04
// @tier quick
// @unit jxl_coding::DecoderInner::read_uint_prefilled (with IntegerConfig::parse for the configuration)
// @sym every configuration for log_alphabet_size 15, every encodable u32 value, input truncated to 0..=4 bytes after the token
// @bound complete for that alphabet size; up to 4 bytes of extra bits present
// @oblig when fewer bits are left than the token's extra-bit count, the read reports UnexpectedEof (never a value built from missing bits - finding F05); otherwise it returns the value
#[kani::proof]
#[kani::unwind(34)]
pub fn c11_hybrid_uint_truncated_extra_bits_is_eof() {
    let cfg_bytes: [u8; 2] = kani::any();
    let mut cbs = Bitstream::new(&cfg_bytes[..]);
    let conf = match cv::parse_integer_config(&mut cbs, 15) {
        Ok(c) => c,
        Err(e) => {
            core::mem::forget(e);
            return;
        }
    };
    let sc = HybridConf { split_exponent: conf.split_exponent, msb_in_token: conf.msb_in_token, lsb_in_token: conf.lsb_in_token };
    let value: u32 = kani::any();
    let (token, nbits, bits) = hybrid_encode(&sc, value);
    kani::assume((token as u64) < (1u64 << 15));
    let mut w = BitWriter::new();
    w.put(bits as u64, nbits as usize);
    w.put(kani::any::<u64>(), 40);
    let bytes = w.bytes();
    let len: usize = kani::any();
    kani::assume(len <= 4);
    let mut bs = Bitstream::new(&bytes[..len]);
    let _ = bs.peek_bits(0);
    let r = cv::read_uint_prefilled(&mut bs, &conf, token);
    if (nbits as usize) > 8 * len {
        match r {
            Ok(_) => panic!("a value was produced from bits that are not there"),
            Err(e) => {
                assert!(e.unexpected_eof());
                core::mem::forget(e);
            }
        }
        kani::cover!(len > 0, "truncated inside the extra bits");
    } else {
        assert!(r.unwrap() == value);
        kani::cover!(nbits > 0, "complete extra bits");
    }
}

/// One LZ77 step from a state with `N` symbols decoded (window of N symbolic values), against
/// the step of ISO/IEC 18181-1 C.3.3.
fn lz77_step_case<const N: usize>(symbol_conf: cv::IntConf, distance_conf: cv::IntConf, length_conf: cv::IntConf) {
    let sconf = |c: &cv::IntConf| HybridConf { split_exponent: c.split_exponent, msb_in_token: c.msb_in_token, lsb_in_token: c.lsb_in_token };
    let (sc, dc, lc) = (sconf(&symbol_conf), sconf(&distance_conf), sconf(&length_conf));
    let values: [u32; N] = kani::any();
    let mut window = Vec::with_capacity(N + 1);
    let mut i = 0;
    while i < N {
        window.push(values[i]);
        i += 1;
    }
    let num_decoded = N as u32;
    let num_to_copy: u32 = kani::any();
    let copy_pos: u32 = kani::any();
    // invariant of the decoder: while a copy is pending the source position is behind the write position
    kani::assume(num_to_copy == 0 || copy_pos < num_decoded);
    let symbol_token: u16 = kani::any();
    let distance_token: u16 = kani::any();
    kani::assume(symbol_token < (1 << 15) && distance_token < (1 << 15));
    let min_symbol: u32 = kani::any();
    let min_length: u32 = kani::any();
    // ranges of the LZ77 header fields (C.2.2): min_symbol in 224..=32775+8, min_length in 3..=264
    kani::assume(min_symbol >= 224 && min_symbol <= 8 + 32767);
    kani::assume(min_length >= 3 && min_length <= 264);
    let dist_multiplier: u32 = kani::any();
    // the multiplier is the largest channel width of one modular sub-image
    kani::assume(dist_multiplier <= 1 << 24);
    let stream: [u8; 16] = kani::any();
    let bits = u128::from_le_bytes(stream);

    // --- specification
    let tok = symbol_token as u32;
    let mut pos = 0u32;
    let mut take = |n: u32| -> u32 {
        let v = ((bits >> pos) & ((1u128 << n) - 1)) as u32;
        pos += n;
        v
    };
    let copying = num_to_copy > 0;
    let is_copy_token = !copying && tok >= min_symbol;
    // tokens whose extra-bit count is not below 32 are not produced by any encoder (the value would not fit u32)
    if !copying {
        if is_copy_token {
            kani::assume(hybrid_nbits(&lc, tok - min_symbol) < 32);
            kani::assume(hybrid_nbits(&dc, distance_token as u32) < 32);
        } else {
            kani::assume(hybrid_nbits(&sc, tok) < 32);
        }
    }
    let (want_r, want_copy, want_pos, want_err);
    if copying {
        want_r = values[copy_pos as usize];
        want_copy = num_to_copy - 1;
        want_pos = copy_pos + 1;
        want_err = false;
    } else if is_copy_token {
        let ln = hybrid_nbits(&lc, tok - min_symbol);
        let len = hybrid_decode(&lc, tok - min_symbol, take(ln)) as u64 + min_length as u64;
        let dn = hybrid_nbits(&dc, distance_token as u32);
        let dv = hybrid_decode(&dc, distance_token as u32, take(dn));
        let mut d = lz77_distance(dv, dist_multiplier);
        if d > num_decoded as u64 {
            d = num_decoded as u64;
        }
        if d > 1 << 20 {
            d = 1 << 20;
        }
        let src = num_decoded - d as u32;
        want_err = len > u32::MAX as u64;
        want_r = values[src as usize];
        want_copy = (len as u32).wrapping_sub(1);
        want_pos = src + 1;
    } else {
        let n = hybrid_nbits(&sc, tok);
        want_r = hybrid_decode(&sc, tok, take(n));
        want_copy = 0;
        want_pos = copy_pos;
        want_err = false;
    }
    let want_bits = pos;

    // --- real code
    let mut bs = Bitstream::new(&stream[..]);
    let snap = cv::Lz77Snapshot { window, num_to_copy, copy_pos, num_decoded };
    let (r, after) = cv::lz77_step(&mut bs, symbol_token, distance_token, &symbol_conf, &distance_conf, &length_conf, min_symbol, min_length, dist_multiplier, snap);
    match r {
        Err(e) => {
            assert!(want_err, "only a copy length overflowing u32 is an error");
            core::mem::forget(e);
        }
        Ok(r) => {
            assert!(!want_err);
            assert!(r == want_r);
            assert!(after.num_to_copy == want_copy);
            if copying || is_copy_token {
                assert!(after.copy_pos == want_pos);
            }
            assert!(after.num_decoded == num_decoded + 1);
            assert!(after.window.len() == N + 1);
            assert!(after.window[N] == want_r);
            assert!(bs.num_read_bits() == want_bits as usize);
            kani::cover!(is_copy_token && dist_multiplier > 1 && want_pos + 1 < num_decoded, "copy through the special distance table");
            kani::cover!(is_copy_token && dist_multiplier == 0, "copy with plain distance");
            kani::cover!(copying, "pending copy continues");
            kani::cover!(!copying && !is_copy_token && want_bits > 0, "literal with extra bits");
        }
    }
    core::mem::forget(after);
}

// @prop C04 C01
// @tier quick
// @unit jxl_coding::DecoderInner::read_varint_with_multiplier_clustered_lz77 (one call, through single-symbol prefix codes)
// @sym state with 24 decoded symbols (window contents, pending copy count and source position symbolic under the decoder's invariant), symbol token and distance token (any 15-bit value), min_symbol, min_length, distance multiplier up to 2^24, 128 following bits; hybrid configurations fixed: symbols (4,1,0), distances (0,0,0), lengths (3,0,1)
// @bound one step; 24 symbols decoded so far (all 120 special distances are distinguishable for multiplier 1 and 2 up to the clamp to 24); the 2^20 window wrap is outside
// @assume extra-bit counts below 32 (tokens an encoder can produce); field ranges of the LZ77 header
// @oblig result value, new pending count and source position, appended window entry and consumed bits equal the LZ77 step of C.3.3: literal via hybrid integer; copy length = hybrid(len token) + min_length; distance via kSpecialDistances with the multiplier (at least 1), plain distance + 1 without multiplier, value - 119 from 120 on; clamped to the symbols decoded
#[kani::proof]
#[kani::unwind(26)]
pub fn c04_lz77_step_matches_spec() {
    lz77_step_case::<24>(
        cv::IntConf { split_exponent: 4, msb_in_token: 1, lsb_in_token: 0 },
        cv::IntConf { split_exponent: 0, msb_in_token: 0, lsb_in_token: 0 },
        cv::IntConf { split_exponent: 3, msb_in_token: 0, lsb_in_token: 1 },
    );
}

// @prop C04 C01
// @tier thorough
// @unit as c04_lz77_step_matches_spec
// @sym as c04_lz77_step_matches_spec from a state with 40 decoded symbols and hybrid configurations with bits in the token: symbols (5,2,1), distances (3,1,1), lengths (4,2,0)
// @bound one step; 40 symbols decoded so far
// @assume as c04_lz77_step_matches_spec
// @oblig as c04_lz77_step_matches_spec
#[kani::proof]
#[kani::unwind(42)]
pub fn c04_lz77_step_matches_spec_other_configs() {
    lz77_step_case::<40>(
        cv::IntConf { split_exponent: 5, msb_in_token: 2, lsb_in_token: 1 },
        cv::IntConf { split_exponent: 3, msb_in_token: 1, lsb_in_token: 1 },
        cv::IntConf { split_exponent: 4, msb_in_token: 2, lsb_in_token: 0 },
    );
}

// @prop C01 C04
// @tier quick
// @unit jxl_coding::DecoderRleMode::read_varint_clustered (one call, through a single-symbol prefix code)
// @sym the token (any 15-bit value), min_symbol, min_length, 128 following bits; hybrid configurations fixed: symbols (4,1,0), run lengths (0,0,0) - with split exponent 0 a length token t >= 1 carries t-1 extra bits, so run lengths up to 2^32-1 are expressible
// @bound one step
// @assume extra-bit counts below 32 (tokens an encoder can produce); field ranges of the LZ77 header
// @oblig a token below min_symbol is a literal with the hybrid-integer value; a token from min_symbol on is a run whose length is hybrid(token - min_symbol) + min_length computed without wrapping - a hostile length whose sum does not fit 32 bits is an error, never a panic (checked builds) or a short wrapped run (optimised builds)
#[kani::proof]
#[kani::unwind(4)]
pub fn c01_rle_step_total_and_exact() {
    let symbol_conf = cv::IntConf { split_exponent: 4, msb_in_token: 1, lsb_in_token: 0 };
    let length_conf = cv::IntConf { split_exponent: 0, msb_in_token: 0, lsb_in_token: 0 };
    let sc = HybridConf { split_exponent: 4, msb_in_token: 1, lsb_in_token: 0 };
    let lc = HybridConf { split_exponent: 0, msb_in_token: 0, lsb_in_token: 0 };
    let token: u16 = kani::any();
    kani::assume(token < (1 << 15));
    let min_symbol: u32 = kani::any();
    let min_length: u32 = kani::any();
    kani::assume(min_symbol >= 224 && min_symbol <= 8 + 32767);
    kani::assume(min_length >= 3 && min_length <= 264);
    let stream: [u8; 16] = kani::any();
    let bits = u128::from_le_bytes(stream);
    let tok = token as u32;
    let (conf, t) = if tok >= min_symbol { (&lc, tok - min_symbol) } else { (&sc, tok) };
    let n = hybrid_nbits(conf, t);
    kani::assume(n < 32);
    let extra = (bits & ((1u128 << n) - 1)) as u32;
    let value = hybrid_decode(conf, t, extra) as u64;

    let mut bs = jxl_bitstream::Bitstream::new(&stream[..]);
    let r = cv::rle_step(&mut bs, token, &symbol_conf, &length_conf, min_symbol, min_length);
    match r {
        Ok(jxl_coding::RleToken::Value(v)) => {
            assert!(tok < min_symbol && v as u64 == value);
            assert!(bs.num_read_bits() == n as usize);
        }
        Ok(jxl_coding::RleToken::Repeat(len)) => {
            assert!(tok >= min_symbol);
            assert!(len as u64 == value + min_length as u64);
            assert!(bs.num_read_bits() == n as usize);
        }
        Err(_) => {
            assert!(tok >= min_symbol && value + min_length as u64 > u32::MAX as u64);
        }
    }
    kani::cover!(tok >= min_symbol && value > (1 << 31), "very long run");
    kani::cover!(r.is_err(), "run length that does not fit is rejected");
    kani::cover!(tok < min_symbol && n > 0, "literal with extra bits");
}
