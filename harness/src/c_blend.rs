//! jxl-render blending: C05 (per-channel blend rules) at pixel level.
use jxl_frame::data::{BlendingModeInformation, PatchBlendMode};
use jxl_frame::header::{BlendMode, BlendingInfo};
use jxl_image::{ImageHeader, ImageMetadata, SizeHeader};
use jxl_oxide_common::BundleDefault;
use jxl_render::verif::blend_fns as bf;

/// Samples from a table of 8 values chosen to separate the formulas (negative, zero, fractions,
/// one, above one): general f32 operands make the float multiplier equivalence too hard for the
/// SAT solver (measured: > 400 s per mode), so the solver decides over all 8^4 combinations.
fn finite() -> f32 {
    const T: [f32; 8] = [-0.5, 0.0, 0.125, 0.25, 0.5, 0.75, 1.0, 1.5];
    let k: usize = kani::any();
    kani::assume(k < 8);
    T[k]
}

fn clamp01(v: f32) -> f32 {
    if v < 0.0 { 0.0 } else if v > 1.0 { 1.0 } else { v }
}

/// ISO/IEC 18181-1 blending of one sample (clause "Blending"): `alpha_ch` says whether this
/// channel is the alpha channel named by the blend info.
fn spec_blend(mode: u8, is_alpha_ch: bool, premultiplied: bool, clamp: bool, old: f32, new: f32, old_a: f32, new_a: f32) -> Option<f32> {
    let na = if clamp { clamp01(new_a) } else { new_a };
    match mode {
        0 => Some(new),       // kReplace
        1 => Some(old + new), // kAdd
        2 => {
            // kBlend
            if is_alpha_ch {
                let n = if clamp { clamp01(new) } else { new };
                Some(old + n * (1.0 - old))
            } else if premultiplied {
                Some(new + old * (1.0 - na))
            } else {
                None // division form: compared only in special cases
            }
        }
        3 => {
            // kMulAdd (alpha weighted add)
            if is_alpha_ch { Some(old) } else { Some(old + na * new) }
        }
        _ => Some(old * if clamp { clamp01(new) } else { new }), // kMul
    }
}

fn frame_mode(m: u8) -> BlendMode {
    match m {
        0 => BlendMode::Replace,
        1 => BlendMode::Add,
        2 => BlendMode::Blend,
        3 => BlendMode::MulAdd,
        _ => BlendMode::Mul,
    }
}

// @prop C05
// @tier quick
// @unit jxl_render::blend::{BlendParams::from_blending_info,blend_single} frame blend mode Replace
// @sym clamp flag, premultiplied flag, which of 3 colour + 2 extra channels is blended, which extra channel is the alpha channel, samples and alphas from the table {-0.5, 0, 0.125, 0.25, 0.5, 0.75, 1, 1.5} (the blend mode is enumerated: one harness per mode)
// @bound one pixel (the kernels are element-wise loops); base alpha present
// @oblig the blended sample is bit-for-bit the specification's formula for that mode (new sample)
#[kani::proof]
#[kani::unwind(3)]
pub fn c05_frame_blend_replace_matches_spec() {
    frame_blend_case(0);
}

// @prop C05
// @tier quick
// @unit jxl_render::blend::{BlendParams::from_blending_info,blend_single} frame blend mode Add
// @sym clamp flag, premultiplied flag, which of 3 colour + 2 extra channels is blended, which extra channel is the alpha channel, samples and alphas from the table {-0.5, 0, 0.125, 0.25, 0.5, 0.75, 1, 1.5} (the blend mode is enumerated: one harness per mode)
// @bound one pixel (the kernels are element-wise loops); base alpha present
// @oblig the blended sample is bit-for-bit the specification's formula for that mode (old + new)
#[kani::proof]
#[kani::unwind(3)]
pub fn c05_frame_blend_add_matches_spec() {
    frame_blend_case(1);
}

// @prop C05
// @tier quick
// @unit jxl_render::blend::{BlendParams::from_blending_info,blend_single} frame blend mode Blend
// @sym clamp flag, premultiplied flag, which of 3 colour + 2 extra channels is blended, which extra channel is the alpha channel, samples and alphas from the table {-0.5, 0, 0.125, 0.25, 0.5, 0.75, 1, 1.5} (the blend mode is enumerated: one harness per mode)
// @bound one pixel (the kernels are element-wise loops); base alpha present
// @oblig the blended sample is bit-for-bit the specification's formula for that mode (alpha channel: old + new*(1-old); premultiplied colour: new + old*(1-alpha); straight-alpha colour: exact at the anchor points alpha = 1 (new replaces) and alpha = 0 over an opaque base (base kept); the general division form is outside)
#[kani::proof]
#[kani::unwind(3)]
pub fn c05_frame_blend_blend_matches_spec() {
    frame_blend_case(2);
}

// @prop C05
// @tier quick
// @unit jxl_render::blend::{BlendParams::from_blending_info,blend_single} frame blend mode MulAdd
// @sym clamp flag, premultiplied flag, which of 3 colour + 2 extra channels is blended, which extra channel is the alpha channel, samples and alphas from the table {-0.5, 0, 0.125, 0.25, 0.5, 0.75, 1, 1.5} (the blend mode is enumerated: one harness per mode)
// @bound one pixel (the kernels are element-wise loops); base alpha present
// @oblig the blended sample is bit-for-bit the specification's formula for that mode (old + alpha*new, the alpha channel itself unchanged)
#[kani::proof]
#[kani::unwind(3)]
pub fn c05_frame_blend_muladd_matches_spec() {
    frame_blend_case(3);
}

// @prop C05
// @tier quick
// @unit jxl_render::blend::{BlendParams::from_blending_info,blend_single} frame blend mode Mul
// @sym clamp flag, premultiplied flag, which of 3 colour + 2 extra channels is blended, which extra channel is the alpha channel, samples and alphas from the table {-0.5, 0, 0.125, 0.25, 0.5, 0.75, 1, 1.5} (the blend mode is enumerated: one harness per mode)
// @bound one pixel (the kernels are element-wise loops); base alpha present
// @oblig the blended sample is bit-for-bit the specification's formula for that mode (old * new with the new sample clamped to [0,1] when requested)
#[kani::proof]
#[kani::unwind(3)]
pub fn c05_frame_blend_mul_matches_spec() {
    frame_blend_case(4);
}

fn frame_blend_case(m: u8) {
    let ih = ImageHeader { size: SizeHeader::default_with_context(()), metadata: ImageMetadata::default_with_context(()) };
    let mode = frame_mode(m);
    let clamp: bool = kani::any();
    let alpha_channel: u32 = kani::any();
    kani::assume(alpha_channel <= 1);
    let channel_idx: usize = kani::any();
    kani::assume(channel_idx < 5);
    // the blending info of an all-default frame header, with the fields under test overwritten
    let mut fh = jxl_frame::FrameHeader::default_with_context(&ih);
    fh.blending_info.mode = mode;
    fh.blending_info.alpha_channel = alpha_channel;
    fh.blending_info.clamp = clamp;
    let info: &BlendingInfo = &fh.blending_info;
    let is_alpha_ch = channel_idx == 3 + alpha_channel as usize;
    let (old, new, old_a, new_a) = (finite(), finite(), finite(), finite());
    // premultiplied alpha (for modes other than Blend the flag is irrelevant and left symbolic)
    let premul: bool = if m == 2 { true } else { kani::any() };
    let got = bf::blend_frame_pixel(channel_idx, 3, info, Some(premul), old, new, Some(old_a), Some(new_a));
    let want = spec_blend(m, is_alpha_ch, premul, clamp, old, new, old_a, new_a).unwrap();
    assert!(got.to_bits() == want.to_bits() || got == want);
    if m == 2 && !is_alpha_ch {
        // straight (non-premultiplied) alpha: the division form is checked at the two anchor
        // points where it is exact (alpha constants keep the float division out of the solver)
        let opaque = bf::blend_frame_pixel(channel_idx, 3, info, Some(false), old, new, Some(old_a), Some(1.0));
        assert!(opaque == new);
        let transparent = bf::blend_frame_pixel(channel_idx, 3, info, Some(false), old, new, Some(1.0), Some(0.0));
        assert!(transparent == old);
    }
    kani::cover!(is_alpha_ch, "the alpha channel named by the blend info");
    kani::cover!(!is_alpha_ch && clamp && new_a > 1.0, "colour channel, clamped alpha");
    core::mem::forget(fh);
    core::mem::forget(ih);
}

// @prop C05
// @tier quick
// @unit jxl_render::blend::{BlendParams::from_patch_blending_info,blend_single} patch blend mode None
// @sym clamp, channel, alpha channel, samples and alphas from the table {-0.5, 0, 0.125, 0.25, 0.5, 0.75, 1, 1.5} (the patch blend mode is enumerated: one harness per mode)
// @bound one pixel; base alpha present; premultiplied alpha
// @oblig patches follow the same arithmetic as frames: None leaves the canvas, Replace/Add/Mul as for frames, BlendAbove/MulAddAbove = frame Blend/MulAdd with the patch as the new layer, BlendBelow/MulAddBelow = the same formulas with canvas and patch roles exchanged
#[kani::proof]
#[kani::unwind(3)]
pub fn c05_patch_blend_none_matches_spec() {
    patch_blend_case(0);
}

// @prop C05
// @tier quick
// @unit jxl_render::blend::{BlendParams::from_patch_blending_info,blend_single} patch blend mode Replace
// @sym clamp, channel, alpha channel, samples and alphas from the table {-0.5, 0, 0.125, 0.25, 0.5, 0.75, 1, 1.5} (the patch blend mode is enumerated: one harness per mode)
// @bound one pixel; base alpha present; premultiplied alpha
// @oblig patches follow the same arithmetic as frames: None leaves the canvas, Replace/Add/Mul as for frames, BlendAbove/MulAddAbove = frame Blend/MulAdd with the patch as the new layer, BlendBelow/MulAddBelow = the same formulas with canvas and patch roles exchanged
#[kani::proof]
#[kani::unwind(3)]
pub fn c05_patch_blend_replace_matches_spec() {
    patch_blend_case(1);
}

// @prop C05
// @tier quick
// @unit jxl_render::blend::{BlendParams::from_patch_blending_info,blend_single} patch blend mode Add
// @sym clamp, channel, alpha channel, samples and alphas from the table {-0.5, 0, 0.125, 0.25, 0.5, 0.75, 1, 1.5} (the patch blend mode is enumerated: one harness per mode)
// @bound one pixel; base alpha present; premultiplied alpha
// @oblig patches follow the same arithmetic as frames: None leaves the canvas, Replace/Add/Mul as for frames, BlendAbove/MulAddAbove = frame Blend/MulAdd with the patch as the new layer, BlendBelow/MulAddBelow = the same formulas with canvas and patch roles exchanged
#[kani::proof]
#[kani::unwind(3)]
pub fn c05_patch_blend_add_matches_spec() {
    patch_blend_case(2);
}

// @prop C05
// @tier quick
// @unit jxl_render::blend::{BlendParams::from_patch_blending_info,blend_single} patch blend mode Mul
// @sym clamp, channel, alpha channel, samples and alphas from the table {-0.5, 0, 0.125, 0.25, 0.5, 0.75, 1, 1.5} (the patch blend mode is enumerated: one harness per mode)
// @bound one pixel; base alpha present; premultiplied alpha
// @oblig patches follow the same arithmetic as frames: None leaves the canvas, Replace/Add/Mul as for frames, BlendAbove/MulAddAbove = frame Blend/MulAdd with the patch as the new layer, BlendBelow/MulAddBelow = the same formulas with canvas and patch roles exchanged
#[kani::proof]
#[kani::unwind(3)]
pub fn c05_patch_blend_mul_matches_spec() {
    patch_blend_case(3);
}

// @prop C05
// @tier quick
// @unit jxl_render::blend::{BlendParams::from_patch_blending_info,blend_single} patch blend mode BlendAbove
// @sym clamp, channel, alpha channel, samples and alphas from the table {-0.5, 0, 0.125, 0.25, 0.5, 0.75, 1, 1.5} (the patch blend mode is enumerated: one harness per mode)
// @bound one pixel; base alpha present; premultiplied alpha
// @oblig patches follow the same arithmetic as frames: None leaves the canvas, Replace/Add/Mul as for frames, BlendAbove/MulAddAbove = frame Blend/MulAdd with the patch as the new layer, BlendBelow/MulAddBelow = the same formulas with canvas and patch roles exchanged
#[kani::proof]
#[kani::unwind(3)]
pub fn c05_patch_blend_blendabove_matches_spec() {
    patch_blend_case(4);
}

// @prop C05
// @tier quick
// @unit jxl_render::blend::{BlendParams::from_patch_blending_info,blend_single} patch blend mode BlendBelow
// @sym clamp, channel, alpha channel, samples and alphas from the table {-0.5, 0, 0.125, 0.25, 0.5, 0.75, 1, 1.5} (the patch blend mode is enumerated: one harness per mode)
// @bound one pixel; base alpha present; premultiplied alpha
// @oblig patches follow the same arithmetic as frames: None leaves the canvas, Replace/Add/Mul as for frames, BlendAbove/MulAddAbove = frame Blend/MulAdd with the patch as the new layer, BlendBelow/MulAddBelow = the same formulas with canvas and patch roles exchanged
#[kani::proof]
#[kani::unwind(3)]
pub fn c05_patch_blend_blendbelow_matches_spec() {
    patch_blend_case(5);
}

// @prop C05
// @tier quick
// @unit jxl_render::blend::{BlendParams::from_patch_blending_info,blend_single} patch blend mode MulAddAbove
// @sym clamp, channel, alpha channel, samples and alphas from the table {-0.5, 0, 0.125, 0.25, 0.5, 0.75, 1, 1.5} (the patch blend mode is enumerated: one harness per mode)
// @bound one pixel; base alpha present; premultiplied alpha
// @oblig patches follow the same arithmetic as frames: None leaves the canvas, Replace/Add/Mul as for frames, BlendAbove/MulAddAbove = frame Blend/MulAdd with the patch as the new layer, BlendBelow/MulAddBelow = the same formulas with canvas and patch roles exchanged
#[kani::proof]
#[kani::unwind(3)]
pub fn c05_patch_blend_muladdabove_matches_spec() {
    patch_blend_case(6);
}

// @prop C05
// @tier quick
// @unit jxl_render::blend::{BlendParams::from_patch_blending_info,blend_single} patch blend mode MulAddBelow
// @sym clamp, channel, alpha channel, samples and alphas from the table {-0.5, 0, 0.125, 0.25, 0.5, 0.75, 1, 1.5} (the patch blend mode is enumerated: one harness per mode)
// @bound one pixel; base alpha present; premultiplied alpha
// @oblig patches follow the same arithmetic as frames: None leaves the canvas, Replace/Add/Mul as for frames, BlendAbove/MulAddAbove = frame Blend/MulAdd with the patch as the new layer, BlendBelow/MulAddBelow = the same formulas with canvas and patch roles exchanged
#[kani::proof]
#[kani::unwind(3)]
pub fn c05_patch_blend_muladdbelow_matches_spec() {
    patch_blend_case(7);
}

fn patch_blend_case(pm: u8) {
    let mode = match pm {
        0 => PatchBlendMode::None,
        1 => PatchBlendMode::Replace,
        2 => PatchBlendMode::Add,
        3 => PatchBlendMode::Mul,
        4 => PatchBlendMode::BlendAbove,
        5 => PatchBlendMode::BlendBelow,
        6 => PatchBlendMode::MulAddAbove,
        _ => PatchBlendMode::MulAddBelow,
    };
    let clamp: bool = kani::any();
    let alpha_channel: u32 = kani::any();
    kani::assume(alpha_channel <= 1);
    let channel_idx: usize = kani::any();
    kani::assume(channel_idx < 5);
    let info = BlendingModeInformation { mode, alpha_channel, clamp };
    let (old, new, old_a, new_a) = (finite(), finite(), finite(), finite());
    let got = bf::blend_patch_pixel(channel_idx, 3, &info, Some(true), old, new, Some(old_a), Some(new_a));
    let is_alpha_ch = channel_idx == 3 + alpha_channel as usize;
    let want = match pm {
        0 => Some(old),
        1 => spec_blend(0, is_alpha_ch, true, clamp, old, new, old_a, new_a),
        2 => spec_blend(1, is_alpha_ch, true, clamp, old, new, old_a, new_a),
        3 => spec_blend(4, is_alpha_ch, true, clamp, old, new, old_a, new_a),
        4 => spec_blend(2, is_alpha_ch, true, clamp, old, new, old_a, new_a),
        // below: the patch is the lower layer, the canvas the upper one
        5 => spec_blend(2, is_alpha_ch, true, clamp, new, old, new_a, old_a),
        6 => spec_blend(3, is_alpha_ch, true, clamp, old, new, old_a, new_a),
        _ => {
            if is_alpha_ch {
                // the lower layer's alpha is kept: the patch's
                Some(new)
            } else {
                spec_blend(3, false, true, clamp, new, old, new_a, old_a)
            }
        }
    };
    if let Some(want) = want {
        assert!(got.to_bits() == want.to_bits() || got == want);
    }
    kani::cover!(is_alpha_ch, "the alpha channel named by the blend info");
    kani::cover!(!is_alpha_ch && clamp, "colour channel with clamping");
}

// @prop C05
// @tier experimental
// @unit jxl_render::blend::patch (rectangle arithmetic between patch target, canvas region and reference region) + blend_single Replace
// @sym patch target position x in -2..=4, y in -2..=2 (partly or wholly outside the 4x2 canvas), reference origin x0 0..=2, y0 0..=1, patch size 1..=2 x 1..=2 inside the 4x2 reference frame; one probed canvas pixel
// @bound 4x2 canvas and reference, one colour channel, one target, Replace mode (the rectangle arithmetic does not depend on the mode)
// @oblig every canvas pixel covered by the patch target receives reference sample (x0 + px - x, y0 + py - y); every other canvas pixel is unchanged; nothing panics for targets cut by any edge
#[kani::proof]
#[kani::unwind(3)]
pub fn c05_patch_rectangle_arithmetic() {
    use jxl_frame::data::{PatchRef, PatchTarget};
    use jxl_grid::AlignedGrid;
    use jxl_render::{ImageBuffer, Region};
    let ih = ImageHeader { size: SizeHeader::default_with_context(()), metadata: ImageMetadata::default_with_context(()) };
    let mut base = jxl_render::verif::empty_image(1);
    base.append_channel(
        ImageBuffer::F32(AlignedGrid::verif_from_vec(4, 2, vec![100.0, 101.0, 102.0, 103.0, 110.0, 111.0, 112.0, 113.0])),
        Region::with_size(4, 2),
    );
    let mut reference = jxl_render::verif::empty_image(1);
    reference.append_channel(
        ImageBuffer::F32(AlignedGrid::verif_from_vec(4, 2, vec![200.0, 201.0, 202.0, 203.0, 210.0, 211.0, 212.0, 213.0])),
        Region::with_size(4, 2),
    );
    let (x, y): (i32, i32) = (kani::any(), kani::any());
    kani::assume(x >= -2 && x <= 4 && y >= -2 && y <= 2);
    let (x0, y0, w, h): (u32, u32, u32, u32) = (kani::any(), kani::any(), kani::any(), kani::any());
    kani::assume(w >= 1 && w <= 2 && h >= 1 && h <= 2 && x0 + w <= 4 && y0 + h <= 2);
    let patch_ref = PatchRef {
        ref_idx: 0,
        x0,
        y0,
        width: w,
        height: h,
        patch_targets: vec![PatchTarget { x, y, blending: vec![BlendingModeInformation { mode: PatchBlendMode::Replace, alpha_channel: 0, clamp: false }] }],
    };
    let r = bf::patch(&ih, &mut base, &reference, &patch_ref);
    assert!(r.is_ok());
    let (px, py): (i32, i32) = (kani::any(), kani::any());
    kani::assume(px >= 0 && px < 4 && py >= 0 && py < 2);
    let got = base.buffer()[0].as_float().unwrap().get(px as usize, py as usize);
    let (dx, dy) = (px - x, py - y);
    let want = if dx >= 0 && dx < w as i32 && dy >= 0 && dy < h as i32 {
        200.0 + (10 * (y0 as i32 + dy) + x0 as i32 + dx) as f32
    } else {
        100.0 + (10 * py + px) as f32
    };
    assert!(got == want);
    kani::cover!(x < 0 && dx >= 0 && dx < w as i32 && dy >= 0 && dy < h as i32, "pixel of a patch cut by the left edge");
    kani::cover!(y < 0 && dx >= 0 && dx < w as i32 && dy >= 0 && dy < h as i32, "pixel of a patch cut by the top edge");
    kani::cover!(x == 4, "patch wholly outside");
    core::mem::forget(r);
    core::mem::forget(patch_ref);
    core::mem::forget(base);
    core::mem::forget(reference);
    core::mem::forget(ih);
}
