//! LSB-first bit writer (ISO/IEC 18181-1 B.2.1: bits are packed into bytes
//! starting from the least significant bit). Fixed capacity so that it stays
//! cheap under CBMC: 256 bits in two u128 words.
#[derive(Clone, Copy)]
pub struct BitWriter {
    lo: u128,
    hi: u128,
    pub nbits: usize,
}

impl BitWriter {
    pub const CAP_BITS: usize = 256;

    pub fn new() -> Self {
        Self { lo: 0, hi: 0, nbits: 0 }
    }

    /// Append the low `n` bits of `v` (n <= 64).
    pub fn put(&mut self, v: u64, n: usize) {
        assert!(n <= 64);
        assert!(self.nbits + n <= Self::CAP_BITS);
        if n == 0 {
            return;
        }
        let v = if n == 64 { v } else { v & ((1u64 << n) - 1) } as u128;
        let pos = self.nbits;
        if pos < 128 {
            self.lo |= v << pos;
            if pos + n > 128 {
                self.hi |= v >> (128 - pos);
            }
        } else {
            self.hi |= v << (pos - 128);
        }
        self.nbits += n;
    }

    pub fn put_bool(&mut self, b: bool) {
        self.put(b as u64, 1);
    }

    /// ZeroPadToByte
    pub fn pad_to_byte(&mut self) {
        let n = (8 - self.nbits % 8) % 8;
        self.put(0, n);
    }

    pub fn bytes(&self) -> [u8; 32] {
        let mut out = [0u8; 32];
        let lo = self.lo.to_le_bytes();
        let hi = self.hi.to_le_bytes();
        out[..16].copy_from_slice(&lo);
        out[16..].copy_from_slice(&hi);
        out
    }

    /// Same as `bytes`, byte by byte with shifts (no memcpy): a concrete writer then yields an
    /// array the symbolic executor constant-propagates.
    pub fn bytes_plain(&self) -> [u8; 32] {
        let mut out = [0u8; 32];
        let mut i = 0;
        while i < 16 {
            out[i] = (self.lo >> (8 * i)) as u8;
            out[16 + i] = (self.hi >> (8 * i)) as u8;
            i += 1;
        }
        out
    }

    pub fn byte_len(&self) -> usize {
        (self.nbits + 7) / 8
    }
}

/// One U32 distribution entry as the spec writes it: `Val(c)` or `BitsOffset(n, off)`.
#[derive(Clone, Copy)]
pub enum U32Dist {
    Val(u32),
    Bits(u32, usize),
}

/// Spec U32(d0,d1,d2,d3) writer with an explicit selector; returns false when
/// `value` is not representable with that selector.
pub fn put_u32(w: &mut BitWriter, d: [U32Dist; 4], sel: usize, value: u32) -> bool {
    match d[sel] {
        U32Dist::Val(c) => {
            if c != value {
                return false;
            }
            w.put(sel as u64, 2);
            true
        }
        U32Dist::Bits(off, n) => {
            let Some(raw) = value.checked_sub(off) else { return false };
            if n < 32 && (raw >> n) != 0 {
                return false;
            }
            w.put(sel as u64, 2);
            w.put(raw as u64, n);
            true
        }
    }
}

/// Smallest selector able to represent `value`, if any.
pub fn put_u32_auto(w: &mut BitWriter, d: [U32Dist; 4], value: u32) -> bool {
    let mut sel = 0;
    while sel < 4 {
        let mut t = *w;
        if put_u32(&mut t, d, sel, value) {
            *w = t;
            return true;
        }
        sel += 1;
    }
    false
}

/// Spec U64 writer with explicit selector and (for selector 3) number of
/// continuation groups `groups` in 0..=7 (7 = the 60-bit + 4-bit form).
/// Returns false when `value` is not representable that way.
pub fn put_u64(w: &mut BitWriter, sel: u32, groups: u32, value: u64) -> bool {
    match sel {
        0 => {
            if value != 0 {
                return false;
            }
            w.put(0, 2);
            true
        }
        1 => {
            if !(1..=16).contains(&value) {
                return false;
            }
            w.put(1, 2);
            w.put(value - 1, 4);
            true
        }
        2 => {
            if !(17..=272).contains(&value) {
                return false;
            }
            w.put(2, 2);
            w.put(value - 17, 8);
            true
        }
        _ => {
            // 12 bits, then `groups` continuation groups: the first six are 8 bits,
            // the seventh (shift == 60) is 4 bits and ends the value.
            if groups > 7 {
                return false;
            }
            let total_bits = if groups == 7 { 64 } else { 12 + 8 * groups };
            if total_bits < 64 && (value >> total_bits) != 0 {
                return false;
            }
            w.put(3, 2);
            w.put(value & 0xfff, 12);
            let mut shift = 12u32;
            let mut g = 0;
            while g < groups {
                w.put(1, 1);
                if shift == 60 {
                    w.put(value >> 60, 4);
                    return true;
                }
                w.put((value >> shift) & 0xff, 8);
                shift += 8;
                g += 1;
            }
            w.put(0, 1);
            true
        }
    }
}

pub fn put_u64_auto(w: &mut BitWriter, value: u64) {
    if value == 0 {
        put_u64(w, 0, 0, value);
    } else if value <= 16 {
        put_u64(w, 1, 0, value);
    } else if value <= 272 {
        put_u64(w, 2, 0, value);
    } else {
        let mut g = 0;
        while g <= 7 {
            let mut t = *w;
            if put_u64(&mut t, 3, g, value) {
                *w = t;
                return;
            }
            g += 1;
        }
    }
}

/// Spec F16 -> value, evaluated exactly as an f32 bit pattern (every finite
/// binary16 is exactly representable in binary32). None for NaN/Inf.
pub fn f16_bits_to_f32_bits(h: u16) -> Option<u32> {
    let sign = ((h as u32) & 0x8000) << 16;
    let exp = ((h >> 10) & 0x1f) as u32;
    let man = (h & 0x3ff) as u32;
    if exp == 0x1f {
        return None;
    }
    if exp == 0 {
        if man == 0 {
            return Some(sign);
        }
        // subnormal: man * 2^-24; normalise so that the leading one sits at bit 10.
        let sh = man.leading_zeros() as i32 - 21; // man < 2^10 => leading_zeros >= 22
        let m = man << sh;
        let e: i32 = -24 + 10 - sh; // value = 1.xxx * 2^e
        let frac = (m & 0x3ff) << 13;
        return Some(sign | (((e + 127) as u32) << 23) | frac);
    }
    Some(sign | ((exp + 112) << 23) | (man << 13))
}

/// Enum(): U32(Val(0), Val(1), BitsOffset(4, 2), BitsOffset(6, 18))
pub const ENUM_DIST: [U32Dist; 4] = [
    U32Dist::Val(0),
    U32Dist::Val(1),
    U32Dist::Bits(2, 4),
    U32Dist::Bits(18, 6),
];

pub fn put_enum(w: &mut BitWriter, v: u32) -> bool {
    put_u32_auto(w, ENUM_DIST, v)
}

pub fn pack_signed(v: i32) -> u32 {
    if v >= 0 {
        (v as u32) << 1
    } else {
        (((-(v as i64)) as u32) << 1).wrapping_sub(1)
    }
}

/// Spec-side bit reader over at most 16 bytes (LSB-first), used as the oracle
/// in differential harnesses. Reading past `len_bits` sets `eof`.
#[derive(Clone, Copy)]
pub struct SpecReader {
    x: u128,
    pub pos: usize,
    pub len_bits: usize,
    pub eof: bool,
}

impl SpecReader {
    pub fn new(bytes: &[u8; 16], len: usize) -> Self {
        Self { x: u128::from_le_bytes(*bytes), pos: 0, len_bits: len * 8, eof: false }
    }
    pub fn u(&mut self, n: usize) -> u64 {
        if n == 0 {
            return 0;
        }
        if self.eof || self.pos + n > self.len_bits {
            self.eof = true;
            return 0;
        }
        let v = (self.x >> self.pos) as u64;
        self.pos += n;
        if n == 64 { v } else { v & ((1u64 << n) - 1) }
    }
}

/// ISO/IEC 18181-1 B.2.3 U64(): decoding procedure.
pub fn spec_read_u64(r: &mut SpecReader) -> u64 {
    match r.u(2) {
        0 => 0,
        1 => 1 + r.u(4),
        2 => 17 + r.u(8),
        _ => {
            let mut value = r.u(12);
            let mut shift = 12;
            while r.u(1) == 1 {
                if shift == 60 {
                    value |= r.u(4) << shift;
                    break;
                }
                value |= r.u(8) << shift;
                shift += 8;
            }
            value
        }
    }
}
