//! Harness-side reference models and writers transcribed from ISO/IEC 18181
//! (never from jxl-oxide). Used as oracles under Kani and for native replay.
pub mod bitwriter;
pub mod coding;
pub mod container;
pub mod dct_tables;
pub mod modular;
