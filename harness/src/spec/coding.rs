//! Entropy-coding reference pieces transcribed from ISO/IEC 18181-1 Annex C
//! (hybrid integer coding C.3.3, the encoder side as in the reference encoder).

#[derive(Clone, Copy, Debug)]
pub struct HybridConf {
    pub split_exponent: u32,
    pub msb_in_token: u32,
    pub lsb_in_token: u32,
}

/// Encoder side: value -> (token, nbits, extra bits).
pub fn hybrid_encode(c: &HybridConf, value: u32) -> (u32, u32, u32) {
    let split = 1u64 << c.split_exponent;
    let v = value as u64;
    if v < split {
        return (value, 0, 0);
    }
    let n = 63 - v.leading_zeros() as u64; // floor(log2(value))
    let m = v - (1u64 << n);
    let msb = c.msb_in_token as u64;
    let lsb = c.lsb_in_token as u64;
    let token = split
        + ((n - c.split_exponent as u64) << (msb + lsb))
        + ((m >> (n - msb)) << lsb)
        + (m & ((1u64 << lsb) - 1));
    let nbits = n - msb - lsb;
    let bits = (v >> lsb) & ((1u64 << nbits) - 1);
    (token as u32, nbits as u32, bits as u32)
}

/// Decoder side of C.3.3 in exact arithmetic: (token, extra bits) -> value, nbits.
pub fn hybrid_nbits(c: &HybridConf, token: u32) -> u32 {
    let split = 1u32 << c.split_exponent;
    if token < split {
        return 0;
    }
    c.split_exponent - (c.msb_in_token + c.lsb_in_token)
        + ((token - split) >> (c.msb_in_token + c.lsb_in_token))
}

/// Number of bits used to code a value in 0..=x: ceil(log2(x + 1)).
pub fn ceil_log2_plus1(x: u32) -> u32 {
    let mut n = 0;
    while n < 32 && (1u64 << n) < x as u64 + 1 {
        n += 1;
    }
    n
}

/// Decoder side of C.3.3: value of `token` given the extra bits (already read, LSB-first `nbits` bits).
pub fn hybrid_decode(c: &HybridConf, token: u32, extra: u32) -> u32 {
    let split = 1u32 << c.split_exponent;
    if token < split {
        return token;
    }
    let n = hybrid_nbits(c, token) as u64;
    let lsb = c.lsb_in_token as u64;
    let msb = c.msb_in_token as u64;
    let low = (token as u64) & ((1u64 << lsb) - 1);
    let mut t = (token as u64) >> lsb;
    t &= (1u64 << msb) - 1;
    t |= 1u64 << msb;
    ((((t << n) | extra as u64) << lsb) | low) as u32
}

/// ISO/IEC 18181-1 C.3.3 kSpecialDistances (the table of the standard, [x offset, y distance]).
#[rustfmt::skip]
pub const SPECIAL_DISTANCES: [[i32; 2]; 120] = [
    [0, 1], [1, 0], [1, 1], [-1, 1], [0, 2], [2, 0], [1, 2], [-1, 2], [2, 1], [-2, 1],
    [2, 2], [-2, 2], [0, 3], [3, 0], [1, 3], [-1, 3], [3, 1], [-3, 1], [2, 3], [-2, 3],
    [3, 2], [-3, 2], [0, 4], [4, 0], [1, 4], [-1, 4], [4, 1], [-4, 1], [3, 3], [-3, 3],
    [2, 4], [-2, 4], [4, 2], [-4, 2], [0, 5], [3, 4], [-3, 4], [4, 3], [-4, 3], [5, 0],
    [1, 5], [-1, 5], [5, 1], [-5, 1], [2, 5], [-2, 5], [5, 2], [-5, 2], [4, 4], [-4, 4],
    [3, 5], [-3, 5], [5, 3], [-5, 3], [0, 6], [6, 0], [1, 6], [-1, 6], [6, 1], [-6, 1],
    [2, 6], [-2, 6], [6, 2], [-6, 2], [4, 5], [-4, 5], [5, 4], [-5, 4], [3, 6], [-3, 6],
    [6, 3], [-6, 3], [0, 7], [7, 0], [1, 7], [-1, 7], [5, 5], [-5, 5], [7, 1], [-7, 1],
    [4, 6], [-4, 6], [6, 4], [-6, 4], [2, 7], [-2, 7], [7, 2], [-7, 2], [3, 7], [-3, 7],
    [7, 3], [-7, 3], [5, 6], [-5, 6], [6, 5], [-6, 5], [8, 0], [4, 7], [-4, 7], [7, 4],
    [-7, 4], [8, 1], [8, 2], [6, 6], [-6, 6], [8, 3], [5, 7], [-5, 7], [7, 5], [-7, 5],
    [8, 4], [6, 7], [-6, 7], [7, 6], [-7, 6], [8, 5], [7, 7], [-7, 7], [8, 6], [8, 7],
];

/// Copy distance (1-based, before clamping to the number of decoded symbols) of C.3.3 for a
/// decoded distance value.
pub fn lz77_distance(value: u32, dist_multiplier: u32) -> u64 {
    if dist_multiplier == 0 {
        value as u64 + 1
    } else if value < 120 {
        let [dx, dy] = SPECIAL_DISTANCES[value as usize];
        let d = dx as i64 + dist_multiplier as i64 * dy as i64;
        if d < 1 { 1 } else { d as u64 }
    } else {
        value as u64 - 119
    }
}
