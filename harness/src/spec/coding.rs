//! Entropy-coding reference pieces transcribed from ISO/IEC 18181-1 Annex C
//! (hybrid integer coding C.3.3, the encoder side as in the reference encoder).

#[derive(Clone, Copy, Debug)]
pub struct HybridConf {
    pub split_exponent: u32,
    pub msb_in_token: u32,
    pub lsb_in_token: u32,
}

/// Encoder side: value -> (token, nbits, extra bits).
pub fn hybrid_encode(c: &HybridConf, value: u32) -> (u32, u32, u32) {
    let split = 1u64 << c.split_exponent;
    let v = value as u64;
    if v < split {
        return (value, 0, 0);
    }
    let n = 63 - v.leading_zeros() as u64; // floor(log2(value))
    let m = v - (1u64 << n);
    let msb = c.msb_in_token as u64;
    let lsb = c.lsb_in_token as u64;
    let token = split
        + ((n - c.split_exponent as u64) << (msb + lsb))
        + ((m >> (n - msb)) << lsb)
        + (m & ((1u64 << lsb) - 1));
    let nbits = n - msb - lsb;
    let bits = (v >> lsb) & ((1u64 << nbits) - 1);
    (token as u32, nbits as u32, bits as u32)
}

/// Decoder side of C.3.3 in exact arithmetic: (token, extra bits) -> value, nbits.
pub fn hybrid_nbits(c: &HybridConf, token: u32) -> u32 {
    let split = 1u32 << c.split_exponent;
    if token < split {
        return 0;
    }
    c.split_exponent - (c.msb_in_token + c.lsb_in_token)
        + ((token - split) >> (c.msb_in_token + c.lsb_in_token))
}

/// Number of bits used to code a value in 0..=x: ceil(log2(x + 1)).
pub fn ceil_log2_plus1(x: u32) -> u32 {
    let mut n = 0;
    while n < 32 && (1u64 << n) < x as u64 + 1 {
        n += 1;
    }
    n
}
