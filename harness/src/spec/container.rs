//! One-step reference semantics of the JPEG XL container (ISO/IEC 18181-2 clause 9 on top of
//! ISO BMFF box framing), written from the format rules:
//!  * signature: `ff 0a` = bare codestream; the 12-byte `JXL ` signature box = container;
//!  * box header: size32 type [size64]; size32 == 1 => 64-bit size follows, size32 == 0 => box
//!    runs to end of file, otherwise size counts the header; a size smaller than its header is
//!    ill-formed;
//!  * `jxlc`: the whole codestream, at most once, never together with `jxlp`;
//!  * `jxlp`: 4-byte big-endian index, bit 31 marks the last part; parts appear in index order
//!    starting from 0, none after the last;
//!  * `brob`: 4-byte inner type + Brotli stream; inner type must not be `jxl?`, `brob`, `jbrd`;
//!  * any other box is auxiliary: delivered with its type and exact payload extent.
//! A step consumes input until it can report one event (or runs out of input).

#[derive(Clone, Copy, PartialEq, Eq, Debug)]
pub struct CState {
    /// 0 = WaitingSignature, 1 = WaitingBoxHeader, 2 = WaitingJxlpIndex, 3 = InAuxBox, 4 = InCodestream
    pub arm: u8,
    pub box_type: [u8; 4],
    /// payload size of the current box (None = to end of file)
    pub box_size: Option<u64>,
    pub brotli_box_type: Option<[u8; 4]>,
    pub bytes_left: Option<usize>,
    /// 0 unknown, 1 bare, 2 container, 3 invalid
    pub kind: u8,
    pub pending_no_more_aux_box: bool,
    /// 0 = no codestream box seen, 1 = jxlc seen, 2 = jxlp(index) seen, 3 = last jxlp seen
    pub jxlp_state: u8,
    pub jxlp_index: u32,
}

#[derive(Clone, Copy, PartialEq, Eq, Debug)]
pub struct Ev {
    /// 1 kind, 2 codestream data, 3 no-more-aux, 4 aux start, 5 aux data, 6 aux end
    pub kind: u8,
    pub ty: [u8; 4],
    pub off: usize,
    pub len: usize,
    pub flag: u8,
}

pub const EV_NONE: Ev = Ev { kind: 0, ty: [0; 4], off: 0, len: 0, flag: 0 };

#[derive(Clone, Copy, PartialEq, Eq, Debug)]
pub enum StepOut {
    /// no event can be produced from the bytes offered
    NeedMore,
    Event(Ev),
    Err,
}

pub const CODESTREAM_SIG: [u8; 2] = [0xff, 0x0a];
pub const CONTAINER_SIG: [u8; 12] = *b"\x00\x00\x00\x0cJXL \x0d\x0a\x87\x0a";

fn is_prefix_of(short: &[u8], long: &[u8]) -> bool {
    if short.len() > long.len() {
        return false;
    }
    let mut i = 0;
    while i < short.len() {
        if short[i] != long[i] {
            return false;
        }
        i += 1;
    }
    true
}

pub fn reserved_for_brob(ty: &[u8; 4]) -> bool {
    (ty[0] == b'j' && ty[1] == b'x' && ty[2] == b'l') || ty == b"brob" || ty == b"jbrd"
}

/// Representation invariant of a quiescent parser state (what a sequence of steps can reach).
pub fn state_valid(s: &CState) -> bool {
    match s.arm {
        0 => s.jxlp_state == 0,
        1 => true,
        2 => {
            s.jxlp_state == 2
                && &s.box_type == b"jxlp"
                && match s.box_size {
                    Some(n) => n >= 4,
                    None => true,
                }
        }
        3 => {
            if &s.box_type == b"jxlc" || &s.box_type == b"jxlp" {
                return false;
            }
            if &s.box_type == b"brob" {
                match s.brotli_box_type {
                    None => match s.bytes_left {
                        Some(n) => n >= 4,
                        None => true,
                    },
                    Some(t) => !reserved_for_brob(&t),
                }
            } else {
                s.brotli_box_type.is_none()
            }
        }
        4 => match s.kind {
            1 | 3 => s.bytes_left.is_none() && s.jxlp_state == 0,
            2 => (s.jxlp_state != 0) && (!s.pending_no_more_aux_box || s.bytes_left.is_none()),
            _ => false,
        },
        _ => false,
    }
}

/// One step: consumes from `buf[*pos..]`.
pub fn spec_step(s: &mut CState, buf: &[u8], pos: &mut usize) -> StepOut {
    let mut guard = 0;
    loop {
        // at most: header -> jxlp index -> pending flag -> data
        guard += 1;
        if guard > 4 {
            return StepOut::Err;
        }
        let rem = &buf[*pos..];
        if rem.is_empty() {
            return StepOut::NeedMore;
        }
        match s.arm {
            0 => {
                if is_prefix_of(&CODESTREAM_SIG, rem) {
                    s.arm = 4;
                    s.kind = 1;
                    s.bytes_left = None;
                    s.pending_no_more_aux_box = true;
                    return StepOut::Event(Ev { kind: 1, ty: [0; 4], off: 0, len: 0, flag: 1 });
                }
                if is_prefix_of(&CONTAINER_SIG, rem) {
                    s.arm = 1;
                    *pos += 12;
                    return StepOut::Event(Ev { kind: 1, ty: [0; 4], off: 0, len: 0, flag: 2 });
                }
                if is_prefix_of(rem, &CODESTREAM_SIG) || is_prefix_of(rem, &CONTAINER_SIG) {
                    return StepOut::NeedMore;
                }
                s.arm = 4;
                s.kind = 3;
                s.bytes_left = None;
                s.pending_no_more_aux_box = true;
                return StepOut::Event(Ev { kind: 1, ty: [0; 4], off: 0, len: 0, flag: 3 });
            }
            1 => {
                if rem.len() < 8 {
                    return StepOut::NeedMore;
                }
                let size32 = u32::from_be_bytes([rem[0], rem[1], rem[2], rem[3]]);
                let ty = [rem[4], rem[5], rem[6], rem[7]];
                let (payload, hsize): (Option<u64>, usize) = if size32 == 1 {
                    if rem.len() < 16 {
                        return StepOut::NeedMore;
                    }
                    let x = u64::from_be_bytes([
                        rem[8], rem[9], rem[10], rem[11], rem[12], rem[13], rem[14], rem[15],
                    ]);
                    if x < 16 {
                        return StepOut::Err;
                    }
                    (Some(x - 16), 16)
                } else if size32 == 0 {
                    (None, 8)
                } else if size32 < 8 {
                    return StepOut::Err;
                } else {
                    (Some((size32 - 8) as u64), 8)
                };
                *pos += hsize;
                if &ty == b"jxlc" {
                    if s.jxlp_state != 0 {
                        return StepOut::Err;
                    }
                    s.jxlp_state = 1;
                    s.arm = 4;
                    s.kind = 2;
                    s.bytes_left = payload.map(|x| x as usize);
                    s.pending_no_more_aux_box = payload.is_none();
                } else if &ty == b"jxlp" {
                    if let Some(p) = payload {
                        if p < 4 {
                            return StepOut::Err;
                        }
                    }
                    match s.jxlp_state {
                        0 => {
                            s.jxlp_state = 2;
                            s.jxlp_index = 0;
                        }
                        2 => {
                            // more than 2^31 parts cannot be indexed
                            s.jxlp_index = s.jxlp_index.wrapping_add(1);
                        }
                        _ => return StepOut::Err,
                    }
                    s.arm = 2;
                    s.box_type = ty;
                    s.box_size = payload;
                } else {
                    if &ty == b"brob" {
                        if let Some(p) = payload {
                            if p < 4 {
                                return StepOut::Err;
                            }
                        }
                    }
                    s.arm = 3;
                    s.box_type = ty;
                    s.box_size = payload;
                    s.brotli_box_type = None;
                    s.bytes_left = payload.map(|x| x as usize);
                    if &ty != b"brob" {
                        return StepOut::Event(Ev {
                            kind: 4,
                            ty,
                            off: 0,
                            len: 0,
                            flag: (payload.is_none() as u8) << 1,
                        });
                    }
                }
            }
            2 => {
                if rem.len() < 4 {
                    return StepOut::NeedMore;
                }
                let raw = u32::from_be_bytes([rem[0], rem[1], rem[2], rem[3]]);
                *pos += 4;
                let last = raw & 0x8000_0000 != 0;
                let idx = raw & 0x7fff_ffff;
                if idx != s.jxlp_index {
                    return StepOut::Err;
                }
                if last {
                    s.jxlp_state = 3;
                }
                s.arm = 4;
                s.kind = 2;
                s.bytes_left = s.box_size.map(|x| (x - 4) as usize);
                s.pending_no_more_aux_box = s.bytes_left.is_none();
            }
            4 => {
                if s.pending_no_more_aux_box {
                    s.pending_no_more_aux_box = false;
                    return StepOut::Event(Ev { kind: 3, ty: [0; 4], off: 0, len: 0, flag: 0 });
                }
                let off = *pos;
                let len = match s.bytes_left {
                    None => rem.len(),
                    Some(n) => {
                        if rem.len() >= n {
                            s.arm = 1;
                            n
                        } else {
                            s.bytes_left = Some(n - rem.len());
                            rem.len()
                        }
                    }
                };
                *pos += len;
                return StepOut::Event(Ev { kind: 2, ty: [0; 4], off, len, flag: 0 });
            }
            _ => {
                if &s.box_type == b"brob" && s.brotli_box_type.is_none() {
                    if rem.len() < 4 {
                        return StepOut::NeedMore;
                    }
                    let ty = [rem[0], rem[1], rem[2], rem[3]];
                    *pos += 4;
                    if let Some(n) = s.bytes_left {
                        s.bytes_left = Some(n - 4);
                    }
                    if reserved_for_brob(&ty) {
                        return StepOut::Err;
                    }
                    s.brotli_box_type = Some(ty);
                    return StepOut::Event(Ev {
                        kind: 4,
                        ty,
                        off: 0,
                        len: 0,
                        flag: 1 | ((s.bytes_left.is_none() as u8) << 1),
                    });
                }
                let ty = match s.brotli_box_type {
                    Some(t) => t,
                    None => s.box_type,
                };
                match s.bytes_left {
                    Some(0) => {
                        s.arm = 1;
                        return StepOut::Event(Ev { kind: 6, ty, off: 0, len: 0, flag: 0 });
                    }
                    Some(n) => {
                        let k = if n < rem.len() { n } else { rem.len() };
                        let off = *pos;
                        s.bytes_left = Some(n - k);
                        *pos += k;
                        return StepOut::Event(Ev { kind: 5, ty, off, len: k, flag: 0 });
                    }
                    None => {
                        let off = *pos;
                        let k = rem.len();
                        *pos += k;
                        return StepOut::Event(Ev { kind: 5, ty, off, len: k, flag: 0 });
                    }
                }
            }
        }
    }
}

/// The state with every field that has no meaning in its arm cleared (so that two quiescent
/// states can be compared with `==`).
pub fn normalized(s: &CState) -> CState {
    let mut n = CState {
        arm: s.arm,
        box_type: [0; 4],
        box_size: None,
        brotli_box_type: None,
        bytes_left: None,
        kind: 0,
        pending_no_more_aux_box: false,
        jxlp_state: s.jxlp_state,
        jxlp_index: if s.jxlp_state == 2 { s.jxlp_index } else { 0 },
    };
    match s.arm {
        2 => {
            n.box_type = s.box_type;
            n.box_size = s.box_size;
        }
        3 => {
            n.box_type = s.box_type;
            n.brotli_box_type = s.brotli_box_type;
            n.bytes_left = s.bytes_left;
        }
        4 => {
            n.kind = s.kind;
            n.bytes_left = s.bytes_left;
            n.pending_no_more_aux_box = s.pending_no_more_aux_box;
        }
        _ => {}
    }
    n
}
