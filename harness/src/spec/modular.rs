//! Reference arithmetic of the Modular mode, transcribed from ISO/IEC 18181-1 Annex H
//! (predictors H.3/H.4, RCT H.6.3, squeeze H.6.2), in i64 so that nothing wraps.

/// Idiv: integer division truncating towards zero (as used by the spec's pseudocode).
fn idiv(a: i64, b: i64) -> i64 {
    a / b
}

/// H.6.2.2 smooth tendency.
pub fn tendency(a: i64, b: i64, c: i64) -> i64 {
    if a >= b && b >= c {
        let mut x = idiv(4 * a - 3 * c - b + 6, 12);
        if x - (x & 1) > 2 * (a - b) {
            x = 2 * (a - b) + 1;
        }
        if x + (x & 1) > 2 * (b - c) {
            x = 2 * (b - c);
        }
        x
    } else if a <= b && b <= c {
        let mut x = idiv(4 * a - 3 * c - b - 6, 12);
        if x + (x & 1) < 2 * (a - b) {
            x = 2 * (a - b) - 1;
        }
        if x - (x & 1) < 2 * (b - c) {
            x = 2 * (b - c);
        }
        x
    } else {
        0
    }
}

/// Forward horizontal squeeze of one row (encoder side of H.6.2): `x` holds `w` samples,
/// output layout = [avg_0 .. avg_{ceil(w/2)-1}, residual_0 .. residual_{floor(w/2)-1}].
pub fn forward_squeeze_1d<const W: usize>(x: &[i64; W]) -> [i64; W] {
    let aw = (W + 1) / 2;
    let mut out = [0i64; W];
    let mut i = 0;
    while i < aw {
        out[i] = if 2 * i + 1 < W {
            let a = x[2 * i];
            let b = x[2 * i + 1];
            (a + b + (a > b) as i64) >> 1
        } else {
            x[2 * i]
        };
        i += 1;
    }
    let mut i = 0;
    while 2 * i + 1 < W {
        let a = x[2 * i];
        let b = x[2 * i + 1];
        let avg = out[i];
        let next_avg = if i + 1 < aw { out[i + 1] } else { avg };
        let left = if i > 0 { x[2 * i - 1] } else { avg };
        out[aw + i] = a - b - tendency(left, avg, next_avg);
        i += 1;
    }
    out
}

/// H.6.3 inverse RCT on one sample triple; returns (D, E, F) before the permutation.
pub fn inverse_rct(ty: u32, a: i64, b: i64, c: i64) -> (i64, i64, i64) {
    if ty == 6 {
        let tmp = a - (c >> 1);
        let e = c + tmp;
        let f = tmp - (b >> 1);
        let d = f + b;
        (d, e, f)
    } else {
        let second = ty >> 1;
        let third = ty & 1;
        let d = a;
        let f = if third != 0 { c + a } else { c };
        let e = if second == 1 {
            b + a
        } else if second == 2 {
            b + ((a + f) >> 1)
        } else {
            b
        };
        (d, e, f)
    }
}

/// Encoder side of the RCT (the unique pre-image of `inverse_rct`).
pub fn forward_rct(ty: u32, d: i64, e: i64, f: i64) -> (i64, i64, i64) {
    if ty == 6 {
        let b = d - f;
        let tmp = f + (b >> 1);
        let c = e - tmp;
        let a = tmp + (c >> 1);
        (a, b, c)
    } else {
        let second = ty >> 1;
        let third = ty & 1;
        let a = d;
        let c = if third != 0 { f - a } else { f };
        let b = if second == 1 {
            e - a
        } else if second == 2 {
            e - ((a + f) >> 1)
        } else {
            e
        };
        (a, b, c)
    }
}

/// H.6.3: channel index (0..3) that receives D, E, F for a permutation 0..6.
pub fn rct_output_positions(permutation: u32) -> (usize, usize, usize) {
    let p = permutation;
    ((p % 3) as usize, ((p + 1 + p / 3) % 3) as usize, ((p + 2 - p / 3) % 3) as usize)
}

/// Neighbourhood of H.3 on a `W`x`H` image stored row-major.
pub struct Nb {
    pub w: i64,
    pub n: i64,
    pub nw: i64,
    pub ne: i64,
    pub nn: i64,
    pub nee: i64,
    pub ww: i64,
}

pub fn neighbours<const W: usize, const H: usize>(s: &[[i64; W]; H], x: usize, y: usize) -> Nb {
    let w = if x > 0 {
        s[y][x - 1]
    } else if y > 0 {
        s[y - 1][x]
    } else {
        0
    };
    let n = if y > 0 { s[y - 1][x] } else { w };
    let nw = if x > 0 && y > 0 { s[y - 1][x - 1] } else { w };
    let ne = if x + 1 < W && y > 0 { s[y - 1][x + 1] } else { n };
    let nn = if y > 1 { s[y - 2][x] } else { n };
    let nee = if x + 2 < W && y > 0 { s[y - 1][x + 2] } else { ne };
    let ww = if x > 1 { s[y][x - 2] } else { w };
    Nb { w, n, nw, ne, nn, nee, ww }
}

/// H.3 table of predictors (all except the self-correcting one, number 6).
pub fn predict(p: u32, nb: &Nb) -> i64 {
    let Nb { w, n, nw, ne, nn, nee, ww } = *nb;
    match p {
        0 => 0,
        1 => w,
        2 => n,
        3 => idiv(w + n, 2),
        4 => {
            if (n - nw).abs() < (w - nw).abs() {
                w
            } else {
                n
            }
        }
        5 => {
            let lo = if w < n { w } else { n };
            let hi = if w < n { n } else { w };
            let g = w + n - nw;
            if g < lo {
                lo
            } else if g > hi {
                hi
            } else {
                g
            }
        }
        7 => ne,
        8 => nw,
        9 => ww,
        10 => idiv(w + nw, 2),
        11 => idiv(n + nw, 2),
        12 => idiv(n + ne, 2),
        _ => idiv(6 * n - 2 * nn + 7 * w + ww + nee + 3 * ne + 8, 16),
    }
}

/// H.4.1 properties 2..=14 (0/1 are set by the caller, 15 is the self-correcting max error).
/// `prev_prop9` = value of property 9 at (x-1, y), or 0 at x == 0.
pub fn property(k: usize, nb: &Nb, x: usize, y: usize, prev_prop9: i64) -> i64 {
    let Nb { w, n, nw, ne, nn, ww, .. } = *nb;
    match k {
        2 => y as i64,
        3 => x as i64,
        4 => n.abs(),
        5 => w.abs(),
        6 => n,
        7 => w,
        8 => w - prev_prop9,
        9 => w + n - nw,
        10 => w - nw,
        11 => nw - n,
        12 => n - ne,
        13 => n - nn,
        _ => w - ww,
    }
}
