//! Container framing: C10 (and the container part of C01, C09, C11).
use jxl_bitstream::container::*;
use jxl_bitstream::{BitstreamKind, ContainerParser, ParseEvent};

const SIG: [u8; 12] = *b"\x00\x00\x00\x0cJXL \x0d\x0a\x87\x0a";

use crate::spec::container::*;
use jxl_bitstream::container::verif::State;

struct D {
    kind: u8,
    ty: [u8; 4],
    off: usize,
    len: usize,
    flag: u8,
}

fn digest(file: &[u8], base: usize, ev: &ParseEvent<'_>) -> D {
    let off_of = |s: &[u8]| (s.as_ptr() as usize) - (file.as_ptr() as usize) + base;
    match ev {
        ParseEvent::BitstreamKind(k) => D {
            kind: 1,
            ty: [0; 4],
            off: 0,
            len: 0,
            flag: match k {
                BitstreamKind::Unknown => 0,
                BitstreamKind::BareCodestream => 1,
                BitstreamKind::Container => 2,
                BitstreamKind::Invalid => 3,
            },
        },
        ParseEvent::Codestream(s) => D { kind: 2, ty: [0; 4], off: off_of(s), len: s.len(), flag: 0 },
        ParseEvent::NoMoreAuxBox => D { kind: 3, ty: [0; 4], off: 0, len: 0, flag: 0 },
        ParseEvent::AuxBoxStart { ty, brotli_compressed, last_box } => D {
            kind: 4,
            ty: ty.0,
            off: 0,
            len: 0,
            flag: (*brotli_compressed as u8) | ((*last_box as u8) << 1),
        },
        ParseEvent::AuxBoxData(ty, s) => D { kind: 5, ty: ty.0, off: off_of(s), len: s.len(), flag: 0 },
        ParseEvent::AuxBoxEnd(ty) => D { kind: 6, ty: ty.0, off: 0, len: 0, flag: 0 },
    }
}


fn to_real(s: &CState) -> State {
    State {
        arm: s.arm,
        box_type: s.box_type,
        box_size: s.box_size,
        brotli_box_type: s.brotli_box_type,
        bytes_left: s.bytes_left,
        kind: match s.kind {
            1 => BitstreamKind::BareCodestream,
            2 => BitstreamKind::Container,
            3 => BitstreamKind::Invalid,
            _ => BitstreamKind::Unknown,
        },
        pending_no_more_aux_box: s.pending_no_more_aux_box,
        jxlp_state: s.jxlp_state,
        jxlp_index: s.jxlp_index,
    }
}

/// Equality on the fields that are meaningful in the given arm.
fn state_matches(spec: &CState, real: &State) -> bool {
    if spec.arm != real.arm || spec.jxlp_state != real.jxlp_state {
        return false;
    }
    if spec.jxlp_state == 2 && spec.jxlp_index != real.jxlp_index {
        return false;
    }
    match spec.arm {
        2 => spec.box_type == real.box_type && spec.box_size == real.box_size,
        3 => {
            spec.box_type == real.box_type
                && spec.brotli_box_type == real.brotli_box_type
                && spec.bytes_left == real.bytes_left
        }
        4 => {
            let k = match real.kind {
                BitstreamKind::Unknown => 0,
                BitstreamKind::BareCodestream => 1,
                BitstreamKind::Container => 2,
                BitstreamKind::Invalid => 3,
            };
            spec.kind == k
                && spec.bytes_left == real.bytes_left
                && spec.pending_no_more_aux_box == real.pending_no_more_aux_box
        }
        _ => true,
    }
}

fn any_opt_size() -> Option<u64> {
    if kani::any() { Some(kani::any()) } else { None }
}

fn any_state_in_arm(arm: u8) -> CState {
    let bs = any_opt_size();
    let s = CState {
        arm,
        box_type: kani::any(),
        box_size: bs,
        brotli_box_type: if kani::any() { Some(kani::any()) } else { None },
        bytes_left: if kani::any() { Some(kani::any()) } else { None },
        kind: kani::any(),
        pending_no_more_aux_box: kani::any(),
        jxlp_state: kani::any(),
        jxlp_index: kani::any(),
    };
    kani::assume(s.jxlp_state <= 3 && s.kind <= 3);
    kani::assume(s.jxlp_index <= 0x7fff_ffff);
    kani::assume(state_valid(&s));
    s
}

const BUF: usize = 20;

/// One `next()` of the real parser from state `pre` on `buf[..len]`, compared with `spec_step`.
fn one_step(pre: CState, buf: &[u8; BUF], len: usize) -> StepOut {
    let mut spec = pre;
    let mut pos = 0usize;
    let want = spec_step(&mut spec, &buf[..len], &mut pos);
    let mut parser = ContainerParser::verif_with_state(&to_real(&pre));
    let got = {
        let mut it = parser.feed_bytes(&buf[..len]);
        match it.next() {
            None => StepOut::NeedMore,
            Some(Ok(ev)) => {
                let d = digest(&buf[..], 0, &ev);
                StepOut::Event(Ev { kind: d.kind, ty: d.ty, off: d.off, len: d.len, flag: d.flag })
            }
            Some(Err(e)) => {
                core::mem::forget(e);
                StepOut::Err
            }
        }
    };
    assert!(got == want);
    if want != StepOut::Err {
        assert!(parser.previous_consumed_bytes() == pos);
        let post = parser.verif_state();
        assert!(state_matches(&spec, &post));
        // inductive closure: the successor is again a valid quiescent state
        assert!(state_valid(&spec));
    }
    want
}

// @prop C10 C01 C09
// @tier quick
// @unit jxl_bitstream::container::{ContainerParser::feed_bytes,ParseEvents::next,ParseEvents::emit_single} arm WaitingSignature
// @sym 20 buffer bytes, length 1..=20
// @bound one parser step from the initial state; buffers up to 20 bytes
// @oblig event, successor state and consumed byte count equal the one-step reference semantics (spec/container.rs): bare signature, container signature (12 bytes consumed), proper prefix of either => need more, anything else => Invalid
#[kani::proof]
#[kani::unwind(14)]
pub fn c10_step_waiting_signature() {
    let buf: [u8; BUF] = kani::any();
    let len: usize = kani::any();
    kani::assume(len >= 1 && len <= BUF);
    let pre = any_state_in_arm(0);
    let o = one_step(pre, &buf, len);
    kani::cover!(matches!(o, StepOut::Event(Ev { kind: 1, flag: 2, .. })), "container signature recognised");
    kani::cover!(matches!(o, StepOut::Event(Ev { kind: 1, flag: 1, .. })), "bare codestream recognised");
    kani::cover!(o == StepOut::NeedMore && len == 11, "11-byte prefix of the container signature: need more");
}

// @prop C10 C01 C09
// @tier quick
// @unit jxl_bitstream::container::{ParseEvents::emit_single,ContainerBoxHeader::parse} arm WaitingBoxHeader (+ the arms entered in the same step)
// @sym 20 buffer bytes (box header 8/16 bytes with any size form, any type; jxlp index; payload), length 1..=20; partial-codestream bookkeeping state and index symbolic
// @bound one parser step; buffers up to 20 bytes; box sizes any u32 / u64
// @oblig as c10_step_waiting_signature; in particular: 32-bit / 64-bit / to-EOF sizes, size smaller than header => Err, duplicate jxlc / jxlc after jxlp / jxlp after jxlc / jxlp after last => Err, jxlp payload < 4 => Err, brob payload < 4 => Err, out-of-order jxlp index => Err, aux box start with exact type and last-box flag, codestream payload delivered with exact extent
#[kani::proof]
#[kani::unwind(5)]
pub fn c10_step_waiting_box_header() {
    let buf: [u8; BUF] = kani::any();
    let len: usize = kani::any();
    kani::assume(len >= 1 && len <= BUF);
    let pre = any_state_in_arm(1);
    let o = one_step(pre, &buf, len);
    kani::cover!(matches!(o, StepOut::Event(Ev { kind: 2, .. })) && len == 20 && buf[3] == 1, "codestream data after a 64-bit-size jxlc header");
    kani::cover!(matches!(o, StepOut::Event(Ev { kind: 2, .. })) && &buf[4..8] == b"jxlp", "codestream data after jxlp header + index");
    kani::cover!(matches!(o, StepOut::Event(Ev { kind: 4, .. })), "aux box start");
    kani::cover!(o == StepOut::Err, "ill-formed layout rejected");
    kani::cover!(o == StepOut::NeedMore && len >= 8, "need more data with 8+ bytes (64-bit size or header exactly consumed)");
}

// @prop C10 C01 C09
// @tier quick
// @unit jxl_bitstream::container::ParseEvents::emit_single arm WaitingJxlpIndex
// @sym state (box size any, expected index any), 20 buffer bytes, length 1..=20
// @bound one parser step
// @oblig as c10_step_waiting_signature: index checked against the expected one, last flag recorded, payload = size-4 delivered to its exact extent; size-4 never underflows for a valid state
#[kani::proof]
#[kani::unwind(5)]
pub fn c10_step_waiting_jxlp_index() {
    let buf: [u8; BUF] = kani::any();
    let len: usize = kani::any();
    kani::assume(len >= 1 && len <= BUF);
    let pre = any_state_in_arm(2);
    let o = one_step(pre, &buf, len);
    kani::cover!(matches!(o, StepOut::Event(Ev { kind: 2, .. })), "codestream data after index");
    kani::cover!(matches!(o, StepOut::Event(Ev { kind: 3, .. })), "to-EOF jxlp: no more aux boxes");
    kani::cover!(o == StepOut::Err, "out-of-order index rejected");
    kani::cover!(o == StepOut::NeedMore, "need more data");
}

// @prop C10 C01 C09
// @tier quick
// @unit jxl_bitstream::container::ParseEvents::emit_single arm InAuxBox (plain and brob)
// @sym state (type, inner brob type or none, bytes_left any usize or to-EOF), 20 buffer bytes, length 1..=20
// @bound one parser step
// @oblig as c10_step_waiting_signature: brob inner type read and reserved types rejected, data delivered min(bytes_left, available), end event when exhausted, counters never underflow
#[kani::proof]
#[kani::unwind(5)]
pub fn c10_step_in_aux_box() {
    let buf: [u8; BUF] = kani::any();
    let len: usize = kani::any();
    kani::assume(len >= 1 && len <= BUF);
    let pre = any_state_in_arm(3);
    let o = one_step(pre, &buf, len);
    kani::cover!(matches!(o, StepOut::Event(Ev { kind: 4, flag: 1, .. })), "brob inner type start");
    kani::cover!(matches!(o, StepOut::Event(Ev { kind: 5, .. })), "aux data");
    kani::cover!(matches!(o, StepOut::Event(Ev { kind: 6, .. })), "aux end");
    kani::cover!(o == StepOut::Err, "reserved brob inner type rejected");
}

// @prop C10 C01 C09
// @tier quick
// @unit jxl_bitstream::container::ParseEvents::emit_single arm InCodestream
// @sym state (kind, bytes_left any usize or to-EOF, pending flag), 20 buffer bytes, length 1..=20
// @bound one parser step
// @oblig as c10_step_waiting_signature: NoMoreAuxBox exactly once when pending, codestream bytes delivered to the exact extent, return to box-header state when the box is exhausted
#[kani::proof]
#[kani::unwind(5)]
pub fn c10_step_in_codestream() {
    let buf: [u8; BUF] = kani::any();
    let len: usize = kani::any();
    kani::assume(len >= 1 && len <= BUF);
    let pre = any_state_in_arm(4);
    let o = one_step(pre, &buf, len);
    kani::cover!(matches!(o, StepOut::Event(Ev { kind: 2, len: 20, .. })), "20 bytes of codestream");
    kani::cover!(matches!(o, StepOut::Event(Ev { kind: 3, .. })), "no more aux boxes");
}

/// All events of one `feed_bytes` call (at most 4), with data events given as (offset, len) in
/// the coordinates of the whole buffer.
fn feed_all(parser: &mut ContainerParser, buf: &[u8], base: usize, out: &mut [Ev; 8], n: &mut usize) -> bool {
    let mut it = parser.feed_bytes(buf);
    let mut guard = 0;
    loop {
        guard += 1;
        if guard > 4 {
            // more events than the bound of this harness
            kani::assume(false);
        }
        match it.next() {
            None => return true,
            Some(Ok(ev)) => {
                let d = digest(buf, base, &ev);
                let e = Ev { kind: d.kind, ty: d.ty, off: d.off, len: d.len, flag: d.flag };
                // merge contiguous data fragments of the same stream
                if *n > 0 && (e.kind == 2 || e.kind == 5) && out[*n - 1].kind == e.kind && out[*n - 1].ty == e.ty
                    && out[*n - 1].off + out[*n - 1].len == e.off
                {
                    out[*n - 1].len += e.len;
                } else if !((e.kind == 2 || e.kind == 5) && e.len == 0) {
                    out[*n] = e;
                    *n += 1;
                }
            }
            Some(Err(e)) => {
                core::mem::forget(e);
                return false;
            }
        }
    }
}

/// Feeding `buf` whole vs. cut at `k` (unconsumed bytes re-offered, as the API requires) from
/// parser state `pre`.
fn chunk_commutes(pre: CState, buf: &[u8; 12], len: usize, k: usize) {
    let mut whole = ContainerParser::verif_with_state(&to_real(&pre));
    let mut ea = [EV_NONE; 8];
    let mut na = 0;
    let ok_a = feed_all(&mut whole, &buf[..len], 0, &mut ea, &mut na);
    let ca = whole.previous_consumed_bytes();

    let mut split = ContainerParser::verif_with_state(&to_real(&pre));
    let mut eb = [EV_NONE; 8];
    let mut nb = 0;
    let ok_b1 = feed_all(&mut split, &buf[..k], 0, &mut eb, &mut nb);
    let c1 = split.previous_consumed_bytes();
    let mut ok_b = ok_b1;
    let mut cb = c1;
    if ok_b1 {
        let ok_b2 = feed_all(&mut split, &buf[c1..len], c1, &mut eb, &mut nb);
        ok_b = ok_b2;
        cb = c1 + split.previous_consumed_bytes();
    }
    assert!(ok_a == ok_b);
    if ok_a {
        assert!(ca == cb);
        assert!(na == nb);
        let i: usize = kani::any();
        kani::assume(i < na);
        assert!(ea[i] == eb[i]);
        let sa = whole.verif_state();
        let sb = split.verif_state();
        assert!(sa == sb);
    }
    kani::cover!(ok_a && na >= 2 && k > 0 && k < len, "two events, proper cut");
}

/// All events the reference semantics produces for one feed call.
fn spec_feed_all(s: &mut CState, buf: &[u8], base: usize, out: &mut [Ev; 8], n: &mut usize, consumed: &mut usize) -> bool {
    let mut pos = 0usize;
    let mut guard = 0;
    loop {
        guard += 1;
        if guard > 5 {
            kani::assume(false);
        }
        match spec_step(s, buf, &mut pos) {
            StepOut::NeedMore => {
                *consumed = pos;
                return true;
            }
            StepOut::Err => return false,
            StepOut::Event(mut e) => {
                if e.kind == 2 || e.kind == 5 {
                    e.off += base;
                }
                if *n > 0 && (e.kind == 2 || e.kind == 5) && out[*n - 1].kind == e.kind && out[*n - 1].ty == e.ty
                    && out[*n - 1].off + out[*n - 1].len == e.off
                {
                    out[*n - 1].len += e.len;
                } else if !((e.kind == 2 || e.kind == 5) && e.len == 0) {
                    out[*n] = e;
                    *n += 1;
                }
            }
        }
    }
}

fn reference_chunking_case(arm: u8) {
    let buf: [u8; 12] = kani::any();
    let len: usize = kani::any();
    let k: usize = kani::any();
    kani::assume(len >= 1 && len <= 12 && k <= len);
    let pre = any_state_in_arm_sym(arm);
    let mut sa = pre;
    let mut ea = [EV_NONE; 8];
    let mut na = 0;
    let mut ca = 0;
    let ok_a = spec_feed_all(&mut sa, &buf[..len], 0, &mut ea, &mut na, &mut ca);
    let mut sb = pre;
    let mut eb = [EV_NONE; 8];
    let mut nb = 0;
    let mut c1 = 0;
    let ok_b1 = spec_feed_all(&mut sb, &buf[..k], 0, &mut eb, &mut nb, &mut c1);
    let mut ok_b = ok_b1;
    let mut cb = c1;
    if ok_b1 {
        let mut c2 = 0;
        ok_b = spec_feed_all(&mut sb, &buf[c1..len], c1, &mut eb, &mut nb, &mut c2);
        cb = c1 + c2;
    }
    // a prefix alone never fails where the whole does not
    assert!(ok_b1 || !ok_a);
    assert!(ok_a == ok_b);
    if ok_a {
        assert!(ca == cb);
        assert!(na == nb);
        let i: usize = kani::any();
        kani::assume(i < na);
        assert!(ea[i] == eb[i]);
        assert!(normalized(&sa) == normalized(&sb));
    }
    kani::cover!(ok_a && na >= 2 && k > 0 && k < len, "two events, proper cut");
}

// @prop C09 C11
// @tier experimental
// @unit harness/src/spec/container.rs::spec_step (the reference semantics that every real parser step is proved equal to by the c10_step_* harnesses)
// @sym any valid parser state, 12 buffer bytes, length 1..=12 (start state arm enumerated: one harness per arm), cut position 0..=length
// @bound one buffer of <= 12 bytes cut once (header forms up to the 64-bit size need 16 bytes and are cut in the thorough harness on the real code)
// @assume compositional argument: the c10_step_* harnesses show that one real parser step equals one reference step from every valid state for every buffer length; this harness shows on the reference semantics that feeding a buffer whole or as prefix + unconsumed rest gives the same merged events, successor state and consumption. Together: the real parser is chunking-independent for sequences of steps. The second half is a model-level lemma decided by the same solver.
// @oblig same events (data fragments concatenated), same successor state, same total consumption; an error in one run is an error in the other; a proper prefix never produces an error that the whole buffer does not produce
#[kani::proof]
#[kani::unwind(14)]
pub fn c09_reference_chunking_commutes_waiting_signature() {
    reference_chunking_case(0);
}

// @prop C09 C11
// @tier experimental
// @unit harness/src/spec/container.rs::spec_step (the reference semantics that every real parser step is proved equal to by the c10_step_* harnesses)
// @sym any valid parser state, 12 buffer bytes, length 1..=12 (start state arm enumerated: one harness per arm), cut position 0..=length
// @bound one buffer of <= 12 bytes cut once (header forms up to the 64-bit size need 16 bytes and are cut in the thorough harness on the real code)
// @assume compositional argument: the c10_step_* harnesses show that one real parser step equals one reference step from every valid state for every buffer length; this harness shows on the reference semantics that feeding a buffer whole or as prefix + unconsumed rest gives the same merged events, successor state and consumption. Together: the real parser is chunking-independent for sequences of steps. The second half is a model-level lemma decided by the same solver.
// @oblig same events (data fragments concatenated), same successor state, same total consumption; an error in one run is an error in the other; a proper prefix never produces an error that the whole buffer does not produce
#[kani::proof]
#[kani::unwind(14)]
pub fn c09_reference_chunking_commutes_waiting_box_header() {
    reference_chunking_case(1);
}

// @prop C09 C11
// @tier experimental
// @unit harness/src/spec/container.rs::spec_step (the reference semantics that every real parser step is proved equal to by the c10_step_* harnesses)
// @sym any valid parser state, 12 buffer bytes, length 1..=12 (start state arm enumerated: one harness per arm), cut position 0..=length
// @bound one buffer of <= 12 bytes cut once (header forms up to the 64-bit size need 16 bytes and are cut in the thorough harness on the real code)
// @assume compositional argument: the c10_step_* harnesses show that one real parser step equals one reference step from every valid state for every buffer length; this harness shows on the reference semantics that feeding a buffer whole or as prefix + unconsumed rest gives the same merged events, successor state and consumption. Together: the real parser is chunking-independent for sequences of steps. The second half is a model-level lemma decided by the same solver.
// @oblig same events (data fragments concatenated), same successor state, same total consumption; an error in one run is an error in the other; a proper prefix never produces an error that the whole buffer does not produce
#[kani::proof]
#[kani::unwind(14)]
pub fn c09_reference_chunking_commutes_waiting_jxlp_index() {
    reference_chunking_case(2);
}

// @prop C09 C11
// @tier experimental
// @unit harness/src/spec/container.rs::spec_step (the reference semantics that every real parser step is proved equal to by the c10_step_* harnesses)
// @sym any valid parser state, 12 buffer bytes, length 1..=12 (start state arm enumerated: one harness per arm), cut position 0..=length
// @bound one buffer of <= 12 bytes cut once (header forms up to the 64-bit size need 16 bytes and are cut in the thorough harness on the real code)
// @assume compositional argument: the c10_step_* harnesses show that one real parser step equals one reference step from every valid state for every buffer length; this harness shows on the reference semantics that feeding a buffer whole or as prefix + unconsumed rest gives the same merged events, successor state and consumption. Together: the real parser is chunking-independent for sequences of steps. The second half is a model-level lemma decided by the same solver.
// @oblig same events (data fragments concatenated), same successor state, same total consumption; an error in one run is an error in the other; a proper prefix never produces an error that the whole buffer does not produce
#[kani::proof]
#[kani::unwind(14)]
pub fn c09_reference_chunking_commutes_in_aux_box() {
    reference_chunking_case(3);
}

// @prop C09 C11
// @tier experimental
// @unit harness/src/spec/container.rs::spec_step (the reference semantics that every real parser step is proved equal to by the c10_step_* harnesses)
// @sym any valid parser state, 12 buffer bytes, length 1..=12 (start state arm enumerated: one harness per arm), cut position 0..=length
// @bound one buffer of <= 12 bytes cut once (header forms up to the 64-bit size need 16 bytes and are cut in the thorough harness on the real code)
// @assume compositional argument: the c10_step_* harnesses show that one real parser step equals one reference step from every valid state for every buffer length; this harness shows on the reference semantics that feeding a buffer whole or as prefix + unconsumed rest gives the same merged events, successor state and consumption. Together: the real parser is chunking-independent for sequences of steps. The second half is a model-level lemma decided by the same solver.
// @oblig same events (data fragments concatenated), same successor state, same total consumption; an error in one run is an error in the other; a proper prefix never produces an error that the whole buffer does not produce
#[kani::proof]
#[kani::unwind(14)]
pub fn c09_reference_chunking_commutes_in_codestream() {
    reference_chunking_case(4);
}

fn any_state_in_arm_sym(arm: u8) -> CState {
    any_state_in_arm(arm)
}

// @prop C09 C10 C11
// @tier experimental
// @unit jxl_bitstream::container::{ContainerParser::{feed_bytes,previous_consumed_bytes},ParseEvents::next} from the data states InCodestream and InAuxBox
// @sym parser state within the arm (byte counters any value, brob type), 12 buffer bytes, length 1..=12, cut position 0..=length
// @bound one buffer of <= 12 bytes cut once; at most 4 events per feed call
// @oblig feeding the buffer whole, or a prefix followed by the unconsumed rest, gives the same events (data fragments concatenated), the same successor state and the same total number of consumed bytes; an error in one run is an error in the other
#[kani::proof]
#[kani::unwind(14)]
pub fn c09_container_chunking_commutes_data_states() {
    let buf: [u8; 12] = kani::any();
    let len: usize = kani::any();
    let k: usize = kani::any();
    kani::assume(len >= 1 && len <= 12 && k <= len);
    let arm: u8 = if kani::any() { 3 } else { 4 };
    let pre = any_state_in_arm(arm);
    chunk_commutes(pre, &buf, len, k);
}

// @prop C09 C10 C11
// @tier experimental
// @unit jxl_bitstream::container (as the data-state harness) from WaitingBoxHeader and WaitingJxlpIndex
// @sym parser bookkeeping state, 12 buffer bytes holding a box header (32-bit size forms) and payload, cut anywhere incl. inside the header
// @bound one buffer of <= 12 bytes cut once
// @oblig as the data-state harness; in particular a cut inside a box header or jxlp index only delays the events
#[kani::proof]
#[kani::unwind(14)]
pub fn c09_container_chunking_commutes_header_states() {
    let buf: [u8; 12] = kani::any();
    let len: usize = kani::any();
    let k: usize = kani::any();
    kani::assume(len >= 1 && len <= 12 && k <= len);
    let arm: u8 = if kani::any() { 1 } else { 2 };
    let pre = any_state_in_arm(arm);
    chunk_commutes(pre, &buf, len, k);
}
