//! Rectangle arithmetic: C06 (padded regions contain the dependency footprint), C05 (region
//! algebra used by blending), C01 (frame geometry helpers are total).
use jxl_frame::filter::{EdgePreservingFilter, EpfParams, Gabor};
use jxl_frame::FrameHeader;
use jxl_image::{ImageHeader, ImageMetadata, SizeHeader};
use jxl_oxide_common::BundleDefault;
use jxl_render::verif::region_fns as rf;
use jxl_render::Region;

const C: i32 = 1 << 30;

fn any_region() -> Region {
    let r = Region { left: kani::any(), top: kani::any(), width: kani::any(), height: kani::any() };
    kani::assume(r.left >= -C && r.left <= C && r.top >= -C && r.top <= C);
    kani::assume(r.width <= C as u32 && r.height <= C as u32);
    // representable without saturation (the decoder's rectangles stay below 2^30 + 2^29 + 9344:
    // canvas <= 2^30, crop offsets |x0| <= 2^29 + 9344)
    kani::assume(r.left as i64 + r.width as i64 <= i32::MAX as i64 && r.top as i64 + r.height as i64 <= i32::MAX as i64);
    r
}

fn has(r: Region, x: i64, y: i64) -> bool {
    x >= r.left as i64 && x < r.left as i64 + r.width as i64 && y >= r.top as i64 && y < r.top as i64 + r.height as i64
}

fn any_point() -> (i64, i64) {
    let (x, y): (i32, i32) = (kani::any(), kani::any());
    (x as i64, y as i64)
}

// @prop C05 C06 C01
// @tier quick
// @unit jxl_render::Region::{intersection,merge,contains,translate,right,bottom,is_empty}
// @sym two rectangles with |left|,|top| <= 2^30, width,height <= 2^30 (the frame size limit) and right/bottom edges below 2^31 (no saturation); translation offsets up to 2^29+9344 (the largest crop offset the frame header can encode); one probe point anywhere in i32
// @bound complete within those coordinate limits
// @oblig set semantics: p in A.intersection(B) <=> p in A and p in B; merge(A,B) contains every point of A and of B; contains(A,B) implies every point of B is in A and is implied when B is empty; translate moves membership by the offset; no arithmetic overflow
#[kani::proof]
#[kani::unwind(2)]
pub fn c05_region_set_semantics() {
    let a = any_region();
    let b = any_region();
    let (x, y) = any_point();
    let i = a.intersection(b);
    assert!(has(i, x, y) == (has(a, x, y) && has(b, x, y)));
    let m = a.merge(b);
    if has(a, x, y) || has(b, x, y) {
        assert!(has(m, x, y));
    }
    if a.contains(b) {
        assert!(!has(b, x, y) || has(a, x, y));
    }
    if b.is_empty() {
        assert!(a.contains(b));
    }
    let (dx, dy): (i32, i32) = (kani::any(), kani::any());
    // crop offsets are UnpackSigned of at most 18688 + 2^30 - 1
    let lim = (1 << 29) + 9344;
    kani::assume(dx >= -lim && dx <= lim && dy >= -lim && dy <= lim);
    let t = a.translate(dx, dy);
    assert!(has(t, x + dx as i64, y + dy as i64) == has(a, x, y));
    kani::cover!(!i.is_empty() && i != a && i != b, "proper overlap");
    kani::cover!(a.left < 0 && a.right() > 0, "rectangle straddling the origin");
}

// @prop C06 C01
// @tier quick
// @unit jxl_render::Region::{downsample,downsample_separate,upsample,pad,container_aligned}
// @sym a rectangle within +-2^28 / size <= 2^28, factors 0..=12 (lf_level*3 <= 12, upsampling <= 3 + dim_shift), pad size <= 64, alignment 1..=256 (power of two), one probe point of the rectangle
// @bound complete within those limits
// @oblig coverage lemmas: a point p of R maps into downsample(R,f) at p>>f (per axis for downsample_separate); upsample(downsample(R,f),f) contains R; pad(R,s) contains every point within distance s of R; container_aligned(R,d) contains R and its edges are multiples of d; no overflow
#[kani::proof]
#[kani::unwind(2)]
pub fn c06_region_resampling_covers() {
    let r = any_region();
    kani::assume(r.left.abs() <= 1 << 28 && r.top.abs() <= 1 << 28 && r.width <= 1 << 28 && r.height <= 1 << 28);
    let (x, y) = any_point();
    kani::assume(has(r, x, y));
    let f: u32 = kani::any();
    let g: u32 = kani::any();
    kani::assume(f <= 12 && g <= 12);
    let d = r.downsample(f);
    assert!(has(d, x >> f, y >> f));
    let ds = r.downsample_separate(f, g);
    assert!(has(ds, x >> f, y >> g));
    let u = d.upsample(f);
    assert!(has(u, x, y));
    let s: u32 = kani::any();
    kani::assume(s <= 64);
    let p = r.pad(s);
    let (ox, oy): (i8, i8) = (kani::any(), kani::any());
    kani::assume((ox as i64).abs() <= s as i64 && (oy as i64).abs() <= s as i64);
    assert!(has(p, x + ox as i64, y + oy as i64));
    let k: u32 = kani::any();
    kani::assume(k <= 8);
    let dim = 1u32 << k;
    let c = rf::container_aligned(r, dim);
    assert!(has(c, x, y));
    assert!(c.left as i64 % dim as i64 == 0 && c.top as i64 % dim as i64 == 0);
    assert!(c.width % dim == 0 && c.height % dim == 0);
    kani::cover!(r.left < 0 && f == 3 && r.left % 8 != 0, "negative unaligned left edge downsampled by 8");
    kani::cover!(k == 3 && c != r, "alignment to 8 grows the region");
}

fn headers() -> (ImageHeader, FrameHeader) {
    let ih = ImageHeader { size: SizeHeader::default_with_context(()), metadata: ImageMetadata::default_with_context(()) };
    let fh = FrameHeader::default_with_context(&ih);
    (ih, fh)
}

// @prop C06
// @tier quick
// @unit jxl_render::util::{pad_color_region,pad_upsampling,pad_lf_region} Region::{downsample,pad,upsample,container_aligned}
// @sym requested frame region within +-2^16 / size <= 2^16 (2^27 in the thorough tier); frame header fields that select stages: upsampling 1 (4 in the sibling harness, all of {1,2,4,8} in the thorough tier), EPF disabled or 1/2/3 iterations, Gabor on/off, do_ycbcr on/off, lf_level 0..=4; a probe pixel of the region and a probe offset
// @bound complete over the stage selection; no extra channels (colour upsampling only)
// @oblig the region that is actually rendered contains the dependency footprint of every requested pixel: the pixel's colour sample position (x >> log2 upsampling) shifted by any offset within the summed support of the enabled filters (EPF 2/5/6, Gabor 1, chroma upsampling 1) lies inside pad_color_region; pad_upsampling contains the request and, in sample space, the +-2 upsampling kernel; pad_lf_region contains the request; EPF regions are 8-aligned
#[kani::proof]
#[kani::unwind(2)]
pub fn c06_padded_region_contains_footprint() {
    padded_footprint(true, Some(0));
}

// @prop C06
// @tier quick
// @unit jxl_render::util::{pad_color_region,pad_upsampling,pad_lf_region}
// @sym as c06_padded_region_contains_footprint with 4x upsampling (the +-2 upsampling kernel in sample space is exercised)
// @bound complete over the remaining stage selection
// @oblig as c06_padded_region_contains_footprint
#[kani::proof]
#[kani::unwind(2)]
pub fn c06_padded_region_contains_footprint_up4() {
    padded_footprint(true, Some(2));
}

// @prop C06
// @tier thorough
// @unit jxl_render::util::{pad_color_region,pad_upsampling,pad_lf_region}
// @sym as c06_padded_region_contains_footprint with coordinates up to 2^27
// @bound complete over the stage selection
// @oblig as c06_padded_region_contains_footprint
#[kani::proof]
#[kani::unwind(2)]
pub fn c06_padded_region_contains_footprint_wide() {
    padded_footprint(false, None);
}

fn padded_footprint(small: bool, fixed_ulog: Option<u32>) {
    let (ih, mut fh) = headers();
    let r = any_region();
    let lim: i32 = if small { 1 << 16 } else { 1 << 27 };
    kani::assume(r.left.abs() <= lim && r.top.abs() <= lim && r.width <= lim as u32 && r.height <= lim as u32);
    let (x, y) = any_point();
    kani::assume(has(r, x, y));
    let ulog: u32 = match fixed_ulog {
        Some(u) => u,
        None => {
            let u: u32 = kani::any();
            kani::assume(u <= 3);
            u
        }
    };
    fh.upsampling = 1 << ulog;
    let epf_iters: u32 = kani::any();
    kani::assume(epf_iters <= 3);
    fh.restoration_filter.epf = if epf_iters == 0 {
        EdgePreservingFilter::Disabled
    } else {
        let mut p = EpfParams::default();
        p.iters = epf_iters;
        EdgePreservingFilter::Enabled(p)
    };
    let gab: bool = kani::any();
    fh.restoration_filter.gab = if gab { Gabor::default() } else { Gabor::Disabled };
    fh.do_ycbcr = kani::any();
    let lf: u32 = kani::any();
    kani::assume(lf <= 4);
    fh.lf_level = lf;

    // upsampling stage
    let up = rf::pad_upsampling(&ih, &fh, r);
    assert!(has(up, x, y));
    if ulog > 0 {
        let sample_region = up.downsample(ulog);
        let (kx, ky): (i8, i8) = (kani::any(), kani::any());
        kani::assume(kx >= -2 && kx <= 2 && ky >= -2 && ky <= 2);
        assert!(has(sample_region, (x >> ulog) + kx as i64, (y >> ulog) + ky as i64));
    }
    // colour stage: summed filter support around the sample position
    let support: i64 = (match epf_iters { 0 => 0, 1 => 2, 2 => 5, _ => 6 }) + gab as i64 + fh.do_ycbcr as i64;
    let color = rf::pad_color_region(&ih, &fh, r);
    let (ox, oy): (i8, i8) = (kani::any(), kani::any());
    kani::assume((ox as i64).abs() <= support && (oy as i64).abs() <= support);
    assert!(has(color, (x >> ulog) + ox as i64, (y >> ulog) + oy as i64));
    if epf_iters > 0 {
        assert!(color.left % 8 == 0 && color.top % 8 == 0 && color.width % 8 == 0 && color.height % 8 == 0);
    }
    // LF stage
    let lfr = rf::pad_lf_region(&fh, r);
    assert!(has(lfr, x, y));
    kani::cover!(epf_iters == 3 && gab && fh.do_ycbcr, "all filter stages enabled");
    kani::cover!(r.left < 0 && support == 0, "negative origin, no filters");
    core::mem::forget(fh);
    core::mem::forget(ih);
}

// @prop C01 C06
// @tier quick
// @unit jxl_frame::FrameHeader::{sample_width,sample_height,num_groups,num_lf_groups,groups_per_row,lf_groups_per_row,group_size_for,lf_group_idx_from_group_idx,group_idx_from_coord,is_group_collides_region,is_lf_group_collides_region}
// @sym frame width,height up to 8 groups per axis (1..=1024 for 128-pixel groups), group_size_shift 0 (other sizes in sibling harnesses), no upsampling / LF level, one pixel of the sample grid, one other group
// @bound frames of at most 8x8 groups
// @oblig the groups partition the sample grid: every sample pixel belongs to exactly the group (y/dim)*groups_per_row + x/dim reported by group_idx_from_coord, that group (and no other) collides with the pixel's 1x1 region, its reported size is min(dim, remaining) on both axes, and pixels beyond the last column have no group
#[kani::proof]
#[kani::unwind(2)]
pub fn c01_frame_geometry_total_and_partition_gss0() {
    frame_geometry_case(0);
}

// @prop C01 C06
// @tier quick
// @unit jxl_frame::FrameHeader geometry helpers (as the gss0 harness)
// @sym as the gss0 harness with group_size_shift = 1 (the default, 256-pixel groups)
// @bound complete within the validated header ranges for that group size
// @oblig as the gss0 harness
#[kani::proof]
#[kani::unwind(2)]
pub fn c01_frame_geometry_total_and_partition_gss1() {
    frame_geometry_case(1);
}

// @prop C01 C06
// @tier thorough
// @unit jxl_frame::FrameHeader geometry helpers (as the gss0 harness)
// @sym as the gss0 harness with group_size_shift = 2 and 3
// @bound complete within the validated header ranges for those group sizes
// @oblig as the gss0 harness
#[kani::proof]
#[kani::unwind(2)]
pub fn c01_frame_geometry_total_and_partition_gss23() {
    frame_geometry_case(2);
    frame_geometry_case(3);
}

fn frame_geometry_case(gss: u32) {
    let (ih, mut fh) = headers();
    // partition semantics on frames of up to 8x8 groups (the index arithmetic is the same for
    // larger frames; totality over the full validated range is the sibling harness)
    let w: u32 = kani::any();
    let h: u32 = kani::any();
    let dim0 = 128u32 << gss;
    kani::assume(w >= 1 && h >= 1 && w <= 8 * dim0 && h <= 8 * dim0);
    fh.width = w;
    fh.height = h;
    fh.group_size_shift = gss;
    let sw = fh.color_sample_width();
    let sh = fh.color_sample_height();
    assert!(sw == w && sh == h);
    let n = fh.num_groups();
    let nlf = fh.num_lf_groups();
    assert!(n >= 1 && nlf == 1);
    let (x, y): (u32, u32) = (kani::any(), kani::any());
    kani::assume(x < sw && y < sh);
    let g = fh.group_idx_from_coord(x, y);
    assert!(g.is_some());
    let g = g.unwrap();
    assert!(g < n);
    assert!(fh.is_group_collides_region(g, (x, y, 1, 1)));
    let dim = fh.group_dim();
    let gpr = fh.groups_per_row();
    assert!(g == (y / dim) * gpr + x / dim);
    let (gw, gh) = fh.group_size_for(g);
    assert!(x - (x / dim) * dim < gw && y - (y / dim) * dim < gh);
    assert!(gw == core::cmp::min(dim, w - (x / dim) * dim) && gh == core::cmp::min(dim, h - (y / dim) * dim));
    let lfg = fh.lf_group_idx_from_group_idx(g);
    assert!(lfg == 0);
    assert!(fh.is_lf_group_collides_region(lfg, (x, y, 1, 1)));
    // a group that does not contain the pixel does not collide with it
    let other: u32 = kani::any();
    kani::assume(other < n && other != g);
    assert!(!fh.is_group_collides_region(other, (x, y, 1, 1)));
    // a pixel right of the sample grid has no group
    let ox: u32 = kani::any();
    kani::assume(ox >= sw && ox < 1 << 30);
    if let Some(og) = fh.group_idx_from_coord(ox, y) {
        assert!((ox >> (7 + gss)) < gpr);
        assert!(og < n);
    }
    kani::cover!(n == 64 && g == 63, "last group of an 8x8-group frame");
    kani::cover!(w % dim != 0 && x / dim == gpr - 1, "ragged last column");
    core::mem::forget(fh);
    core::mem::forget(ih);
}

// @prop C01
// @tier quick
// @unit jxl_frame::FrameHeader::{sample_width,sample_height,color_sample_width,num_groups,num_lf_groups,groups_per_row,lf_groups_per_row,group_size_for,lf_group_size_for,lf_group_idx_from_group_idx,group_idx_from_coord,is_group_collides_region,is_lf_group_collides_region}
// @sym frame width,height in three boxes inside the limits Frame::parse enforces (2^20 x 2^20, 2^30 x 2^10, 2^10 x 2^30; area <= 2^40), upsampling {1,2,4,8}, lf_level 0..=4, group_size_shift 0 (one harness per group size: constant divisors), any group index below num_groups, any coordinates and regions below 2^30
// @bound the three boxes (frames with w*h <= 2^40 outside them, e.g. 2^25 x 2^15, are not covered: the product bound itself is SAT-hard)
// @assume the header satisfies the checks of Frame::parse (w,h <= 2^30, w*h <= 2^40)
// @oblig totality only: no arithmetic overflow, division by zero or other panic in a checked build; counts are at least 1
#[kani::proof]
#[kani::unwind(6)]
pub fn c01_frame_geometry_total_gss0() {
    frame_geometry_total_case(0, 0);
    frame_geometry_total_case(0, 1);
    frame_geometry_total_case(0, 2);
}

// @prop C01
// @tier quick
// @unit jxl_frame::FrameHeader::{sample_width,sample_height,color_sample_width,num_groups,num_lf_groups,groups_per_row,lf_groups_per_row,group_size_for,lf_group_size_for,lf_group_idx_from_group_idx,group_idx_from_coord,is_group_collides_region,is_lf_group_collides_region}
// @sym frame width,height in three boxes inside the limits Frame::parse enforces (2^20 x 2^20, 2^30 x 2^10, 2^10 x 2^30; area <= 2^40), upsampling {1,2,4,8}, lf_level 0..=4, group_size_shift 1 (one harness per group size: constant divisors), any group index below num_groups, any coordinates and regions below 2^30
// @bound the three boxes (frames with w*h <= 2^40 outside them, e.g. 2^25 x 2^15, are not covered: the product bound itself is SAT-hard)
// @assume the header satisfies the checks of Frame::parse (w,h <= 2^30, w*h <= 2^40)
// @oblig totality only: no arithmetic overflow, division by zero or other panic in a checked build; counts are at least 1
#[kani::proof]
#[kani::unwind(6)]
pub fn c01_frame_geometry_total_gss1() {
    frame_geometry_total_case(1, 0);
    frame_geometry_total_case(1, 1);
    frame_geometry_total_case(1, 2);
}

// @prop C01
// @tier quick
// @unit jxl_frame::FrameHeader::{sample_width,sample_height,color_sample_width,num_groups,num_lf_groups,groups_per_row,lf_groups_per_row,group_size_for,lf_group_size_for,lf_group_idx_from_group_idx,group_idx_from_coord,is_group_collides_region,is_lf_group_collides_region}
// @sym frame width,height in three boxes inside the limits Frame::parse enforces (2^20 x 2^20, 2^30 x 2^10, 2^10 x 2^30; area <= 2^40), upsampling {1,2,4,8}, lf_level 0..=4, group_size_shift 2 (one harness per group size: constant divisors), any group index below num_groups, any coordinates and regions below 2^30
// @bound the three boxes (frames with w*h <= 2^40 outside them, e.g. 2^25 x 2^15, are not covered: the product bound itself is SAT-hard)
// @assume the header satisfies the checks of Frame::parse (w,h <= 2^30, w*h <= 2^40)
// @oblig totality only: no arithmetic overflow, division by zero or other panic in a checked build; counts are at least 1
#[kani::proof]
#[kani::unwind(6)]
pub fn c01_frame_geometry_total_gss2() {
    frame_geometry_total_case(2, 0);
    frame_geometry_total_case(2, 1);
    frame_geometry_total_case(2, 2);
}

// @prop C01
// @tier quick
// @unit jxl_frame::FrameHeader::{sample_width,sample_height,color_sample_width,num_groups,num_lf_groups,groups_per_row,lf_groups_per_row,group_size_for,lf_group_size_for,lf_group_idx_from_group_idx,group_idx_from_coord,is_group_collides_region,is_lf_group_collides_region}
// @sym frame width,height in three boxes inside the limits Frame::parse enforces (2^20 x 2^20, 2^30 x 2^10, 2^10 x 2^30; area <= 2^40), upsampling {1,2,4,8}, lf_level 0..=4, group_size_shift 3 (one harness per group size: constant divisors), any group index below num_groups, any coordinates and regions below 2^30
// @bound the three boxes (frames with w*h <= 2^40 outside them, e.g. 2^25 x 2^15, are not covered: the product bound itself is SAT-hard)
// @assume the header satisfies the checks of Frame::parse (w,h <= 2^30, w*h <= 2^40)
// @oblig totality only: no arithmetic overflow, division by zero or other panic in a checked build; counts are at least 1
#[kani::proof]
#[kani::unwind(6)]
pub fn c01_frame_geometry_total_gss3() {
    frame_geometry_total_case(3, 0);
    frame_geometry_total_case(3, 1);
    frame_geometry_total_case(3, 2);
}

fn frame_geometry_total_case(gss: u32, shape: u32) {
    let (ih, mut fh) = headers();
    let w: u32 = kani::any();
    let h: u32 = kani::any();
    // the validated range w,h <= 2^30, w*h <= 2^40 is covered by three boxes (a product bound
    // is SAT-hard): balanced 2^20 x 2^20, widest 2^30 x 2^10, tallest 2^10 x 2^30
    let (wmax, hmax) = match shape {
        0 => (1u32 << 20, 1u32 << 20),
        1 => (1 << 30, 1 << 10),
        _ => (1 << 10, 1 << 30),
    };
    kani::assume(w >= 1 && h >= 1 && w <= wmax && h <= hmax);
    fh.width = w;
    fh.height = h;
    let ulog: u32 = kani::any();
    kani::assume(ulog <= 3);
    fh.upsampling = 1 << ulog;
    let lf: u32 = kani::any();
    kani::assume(lf <= 4);
    fh.lf_level = lf;
    fh.group_size_shift = gss;
    let n = fh.num_groups();
    let nlf = fh.num_lf_groups();
    assert!(n >= 1 && nlf >= 1);
    let g: u32 = kani::any();
    kani::assume(g < n);
    let _ = fh.group_size_for(g);
    let lfg = fh.lf_group_idx_from_group_idx(g);
    let _ = fh.lf_group_size_for(lfg);
    let (x, y, rw, rh): (u32, u32, u32, u32) = (kani::any(), kani::any(), kani::any(), kani::any());
    kani::assume(x < 1 << 30 && y < 1 << 30 && rw <= 1 << 30 && rh <= 1 << 30);
    // coordinates handed to group_idx_from_coord come from the frame's own sample grid (its only
    // caller walks MCU rows of the frame); rows far below the grid are not in the property's
    // quantifier (group_y * groups_per_row overflows u32 there - noted in DESIGN section 8)
    kani::assume(y < fh.color_sample_height() + 2048);
    let _ = fh.group_idx_from_coord(x, y);
    let _ = fh.is_group_collides_region(g, (x, y, rw, rh));
    let _ = fh.is_lf_group_collides_region(lfg, (x, y, rw, rh));
    kani::cover!(w == wmax && h == hmax && ulog == 0, "largest frame of the box");
    core::mem::forget(fh);
    core::mem::forget(ih);
}
