//! jxl-modular sample arithmetic: C03 (lossless exactness at unit level), C12 (i16 == i32), C01.
use crate::spec::modular as spec;
use jxl_grid::MutableSubgrid;
use jxl_modular::verif::{predictor_fns, rct, squeeze, Predictor, PredictorState, Sealed};

const LIM: i32 = 1 << 28;
const SQ_LIM: i32 = 1 << 16;

fn any_sq_sample() -> i32 {
    let v: i32 = kani::any();
    kani::assume(v > -SQ_LIM && v < SQ_LIM);
    v
}

fn any_sample() -> i32 {
    let v: i32 = kani::any();
    kani::assume(v > -LIM && v < LIM);
    v
}

fn rct_matches_spec<const TYPE: u32>() {
    // real inverse == spec formula (i64, nothing wraps for 29-bit inputs)
    let (a, b, c) = (any_sample(), any_sample(), any_sample());
    let mut ra = [a, any_sample()];
    let mut rb = [b, any_sample()];
    let mut rc = [c, any_sample()];
    let snapshot = (ra[1], rb[1], rc[1]);
    {
        let mut rows: [&mut [i32]; 3] = [&mut ra[..], &mut rb[..], &mut rc[..]];
        rct::inverse_row_i32_base::<TYPE>(&mut rows);
    }
    let (d, e, f) = spec::inverse_rct(TYPE, a as i64, b as i64, c as i64);
    assert!(ra[0] as i64 == d && rb[0] as i64 == e && rc[0] as i64 == f);
    let (d1, e1, f1) = spec::inverse_rct(TYPE, snapshot.0 as i64, snapshot.1 as i64, snapshot.2 as i64);
    assert!(ra[1] as i64 == d1 && rb[1] as i64 == e1 && rc[1] as i64 == f1);
}

fn rct_roundtrip<const TYPE: u32>() {
    // lossless round trip through the encoder-side transform, for every i32 triple (wrapping)
    let (d, e, f): (i32, i32, i32) = (kani::any(), kani::any(), kani::any());
    let (a, b, c) = wrapping_forward::<TYPE>(d, e, f);
    let mut ra = [a];
    let mut rb = [b];
    let mut rc = [c];
    {
        let mut rows: [&mut [i32]; 3] = [&mut ra[..], &mut rb[..], &mut rc[..]];
        rct::inverse_row_i32_base::<TYPE>(&mut rows);
    }
    assert!(ra[0] == d && rb[0] == e && rc[0] == f);
}

fn rct_narrow_vs_wide<const TYPE: u32>() {
    // the 16-bit kernel agrees with the 32-bit one when 16 bits truthfully suffice
    let (a, b, c): (i16, i16, i16) = (kani::any(), kani::any(), kani::any());
    let mut wa = [a as i32];
    let mut wb = [b as i32];
    let mut wc = [c as i32];
    {
        let mut rows: [&mut [i32]; 3] = [&mut wa[..], &mut wb[..], &mut wc[..]];
        rct::inverse_row_i32_base::<TYPE>(&mut rows);
    }
    let mut na = [a];
    let mut nb = [b];
    let mut nc = [c];
    {
        let mut rows: [&mut [i16]; 3] = [&mut na[..], &mut nb[..], &mut nc[..]];
        rct::inverse_row_i16_base::<TYPE>(&mut rows);
    }
    // "16 bits suffice": inputs and wide results within 12 bits + sign => identical samples
    let small = |v: i32| v >= -4095 && v <= 4095;
    if small(a as i32) && small(b as i32) && small(c as i32) && small(wa[0]) && small(wb[0]) && small(wc[0]) {
        assert!(na[0] as i32 == wa[0] && nb[0] as i32 == wb[0] && nc[0] as i32 == wc[0]);
    }
}

fn wrapping_forward<const TYPE: u32>(d: i32, e: i32, f: i32) -> (i32, i32, i32) {
    if TYPE == 6 {
        let b = d.wrapping_sub(f);
        let tmp = f.wrapping_add(b >> 1);
        let c = e.wrapping_sub(tmp);
        let a = tmp.wrapping_add(c >> 1);
        (a, b, c)
    } else {
        let second = TYPE >> 1;
        let third = TYPE & 1;
        let a = d;
        let c = if third != 0 { f.wrapping_sub(a) } else { f };
        let b = if second == 1 {
            e.wrapping_sub(a)
        } else if second == 2 {
            e.wrapping_sub(a.wrapping_add(f) >> 1)
        } else {
            e
        };
        (a, b, c)
    }
}

// @prop C03
// @tier quick
// @unit jxl_modular::transform::rct::inverse_row_i32_base for all 7 RCT types
// @sym sample triples with |v| < 2^28, rows of 2 samples
// @bound rows of length 2 (the kernel is element-wise); all 7 types enumerated; 29-bit samples (no wrap in the exact formula)
// @oblig inverse equals the formula of ISO/IEC 18181-1 H.6.3 evaluated in exact arithmetic
#[kani::proof]
#[kani::unwind(4)]
pub fn c03_rct_matches_spec() {
    rct_matches_spec::<0>();
    rct_matches_spec::<1>();
    rct_matches_spec::<2>();
    rct_matches_spec::<3>();
    rct_matches_spec::<4>();
    rct_matches_spec::<5>();
    rct_matches_spec::<6>();
    kani::cover!(true, "all 7 types executed");
}

// @prop C03
// @tier quick
// @unit jxl_modular::transform::rct::inverse_row_i32_base for all 7 RCT types
// @sym every i32 triple
// @bound complete over i32^3 per type
// @oblig inverse(forward(x)) == x where forward is the encoder-side transform (wrapping arithmetic on both sides)
#[kani::proof]
#[kani::unwind(4)]
pub fn c03_rct_roundtrip_all_i32() {
    rct_roundtrip::<0>();
    rct_roundtrip::<1>();
    rct_roundtrip::<2>();
    rct_roundtrip::<3>();
    rct_roundtrip::<4>();
    rct_roundtrip::<5>();
    rct_roundtrip::<6>();
    kani::cover!(true, "all 7 types executed");
}

// @prop C12
// @tier quick
// @unit jxl_modular::transform::rct::{inverse_row_i16_base,inverse_row_i32_base} for all 7 RCT types
// @sym every i16 triple
// @bound complete over i16^3 per type
// @assume "16-bit buffers suffice": inputs and wide results lie within [-4095, 4095] (12 bits + sign)
// @oblig the narrow kernel produces exactly the samples of the wide kernel
#[kani::proof]
#[kani::unwind(4)]
pub fn c12_rct_i16_equals_i32() {
    rct_narrow_vs_wide::<0>();
    rct_narrow_vs_wide::<1>();
    rct_narrow_vs_wide::<2>();
    rct_narrow_vs_wide::<3>();
    rct_narrow_vs_wide::<4>();
    rct_narrow_vs_wide::<5>();
    rct_narrow_vs_wide::<6>();
    kani::cover!(true, "all 7 types executed");
}

// @prop C03
// @tier quick
// @unit jxl_modular::transform::rct::inverse_permute
// @sym permutation 0..=5, three single-sample rows
// @bound complete over the 6 permutations
// @oblig D,E,F land in the channels given by the spec's index formula (p%3, (p+1+p/3)%3, (p+2-p/3)%3)
#[kani::proof]
#[kani::unwind(4)]
pub fn c03_rct_permutation_matches_spec() {
    let p: u32 = kani::any();
    kani::assume(p < 6);
    let (d, e, f): (i32, i32, i32) = (kani::any(), kani::any(), kani::any());
    let mut r0 = [d];
    let mut r1 = [e];
    let mut r2 = [f];
    rct::inverse_permute::<i32>(p, [&mut r0[..], &mut r1[..], &mut r2[..]]);
    let out = [r0[0], r1[0], r2[0]];
    let (pd, pe, pf) = spec::rct_output_positions(p);
    assert!(out[pd] == d && out[pe] == e && out[pf] == f);
    kani::cover!(p == 5 && d != e && e != f && d != f, "permutation 5 with distinct values");
}

// @prop C03 C01
// @tier quick
// @unit jxl_modular::transform::squeeze::tendency_i32
// @sym all triples with |v| < 2^20
// @bound 21-bit samples (the exact formula has no wrap below 2^27; 2^20 keeps the 64-bit division tractable)
// @oblig tendency_i32 == H.6.2.2 evaluated in exact arithmetic; no overflow panic
#[kani::proof]
#[kani::unwind(2)]
pub fn c03_tendency_matches_spec() {
    let a = kani::any::<i32>();
    let b = kani::any::<i32>();
    let c = kani::any::<i32>();
    let lim = 1 << 20;
    kani::assume(a > -lim && a < lim && b > -lim && b < lim && c > -lim && c < lim);
    let t = squeeze::tendency_i32(a, b, c);
    assert!(t as i64 == spec::tendency(a as i64, b as i64, c as i64));
    kani::cover!(t > 1, "positive tendency");
    kani::cover!(t < -1, "negative tendency");
}

// @prop C12
// @tier quick
// @unit jxl_modular::transform::squeeze::{tendency_i16,tendency_i32}
// @sym all i16 triples
// @bound complete over i16^3
// @assume the wide intermediates (4a-3c-b+-6, 2(a-b)+-1, 2(b-c)) fit 16 bits - this is what "16 bits suffice" means for this kernel
// @oblig tendency_i16 == tendency_i32
#[kani::proof]
#[kani::unwind(2)]
pub fn c12_tendency_i16_equals_i32() {
    let (a, b, c): (i16, i16, i16) = (kani::any(), kani::any(), kani::any());
    let (la, lb, lc) = (a as i32, b as i32, c as i32);
    let fits = |v: i32| v >= i16::MIN as i32 && v <= i16::MAX as i32;
    kani::assume(fits(4 * la - 3 * lc - lb + 6) && fits(4 * la - 3 * lc - lb - 6));
    kani::assume(fits(2 * (la - lb) + 1) && fits(2 * (la - lb) - 1) && fits(2 * (lb - lc)));
    let wide = squeeze::tendency_i32(la, lb, lc);
    assert!(squeeze::tendency_i16(a, b, c) as i32 == wide);
    kani::cover!(wide != 0 && (la >= 4095 || lc <= -4095), "non-zero tendency at the 12-bit edge");
}

// @prop C03 C12
// @tier quick
// @unit jxl_modular::sample::Sealed::{grad_clamped,unpack_signed_u32,wrapping_muladd_i32,add} for i16 and i32
// @sym unpack: every u32; grad_clamped: every i32 / i16 triple; muladd: every sample and offset, multiplier 0..=255 (SAT-hard multiplier equivalence is avoided by bounding one factor)
// @bound complete except the multiplier range
// @oblig unpack_signed == spec UnpackSigned; i16 ops == truncation of the i32 ops; grad_clamped == clamp(n+w-nw, min(n,w), max(n,w)) in exact arithmetic
#[kani::proof]
#[kani::unwind(2)]
pub fn c03_sample_ops() {
    let v: u32 = kani::any();
    assert!(<i16 as Sealed>::unpack_signed_u32(v) == <i32 as Sealed>::unpack_signed_u32(v) as i16);
    let expect = if v & 1 == 0 { (v >> 1) as i64 } else { -((v >> 1) as i64) - 1 };
    assert!(<i32 as Sealed>::unpack_signed_u32(v) as i64 == expect);
    let (s, o): (i32, i32) = (kani::any(), kani::any());
    let m = kani::any::<u8>() as i32;
    assert!(<i16 as Sealed>::wrapping_muladd_i32(s as i16, m, o) == <i32 as Sealed>::wrapping_muladd_i32(s, m, o) as i16);
    assert!(<i32 as Sealed>::wrapping_muladd_i32(s, m, o) == (s as i64 * m as i64 + o as i64) as i32);
    assert!(<i32 as Sealed>::add(s, o) == s.wrapping_add(o));
    assert!(<i16 as Sealed>::add(s as i16, o as i16) == s.wrapping_add(o) as i16);
    let (n, w, nw): (i32, i32, i32) = (kani::any(), kani::any(), kani::any());
    let g = n as i64 + w as i64 - nw as i64;
    let (lo, hi) = if n < w { (n as i64, w as i64) } else { (w as i64, n as i64) };
    let want = if g < lo { lo } else if g > hi { hi } else { g };
    assert!(<i32 as Sealed>::grad_clamped(n, w, nw) as i64 == want);
    let (n, w, nw): (i16, i16, i16) = (kani::any(), kani::any(), kani::any());
    assert!(<i16 as Sealed>::grad_clamped(n, w, nw) as i32 == <i32 as Sealed>::grad_clamped(n as i32, w as i32, nw as i32));
    kani::cover!(want == lo && lo != hi, "gradient clamped at the lower neighbour");
}

fn squeeze_h_roundtrip<const W: usize>() {
    let mut x = [0i64; W];
    let mut i = 0;
    while i < W {
        x[i] = any_sq_sample() as i64;
        i += 1;
    }
    let enc = spec::forward_squeeze_1d::<W>(&x);
    let mut buf = [0i32; W];
    let mut i = 0;
    while i < W {
        // the encoder's residuals must be representable
        kani::assume(enc[i] > i32::MIN as i64 && enc[i] < i32::MAX as i64);
        buf[i] = enc[i] as i32;
        i += 1;
    }
    let mut g = MutableSubgrid::from_buf(&mut buf[..], W, 1, W);
    squeeze::inverse_h_i32_base(&mut g);
    let mut i = 0;
    while i < W {
        assert!(buf[i] as i64 == x[i]);
        i += 1;
    }
}

// @prop C03
// @tier quick
// @unit jxl_modular::transform::squeeze::{inverse_h_i32_base,tendency_i32}
// @sym every row of 5 samples (odd width: lone last average) with |v| < 2^16
// @bound row width 5 (4 in the sibling harness), height 1 (rows are independent); 17-bit samples
// @oblig inverse_h(forward_squeeze_spec(row)) == row, with the forward step transcribed from H.6.2 (averages, residual minus tendency)
#[kani::proof]
#[kani::unwind(7)]
pub fn c03_squeeze_h_roundtrip_w5() {
    squeeze_h_roundtrip::<5>();
    kani::cover!(true, "executed");
}

// @prop C03
// @tier quick
// @unit jxl_modular::transform::squeeze::{inverse_h_i32_base,tendency_i32}
// @sym every row of 4 samples (even width) with |v| < 2^16
// @bound row width 4, height 1
// @oblig inverse_h(forward_squeeze_spec(row)) == row
#[kani::proof]
#[kani::unwind(7)]
pub fn c03_squeeze_h_roundtrip_w4() {
    squeeze_h_roundtrip::<4>();
    kani::cover!(true, "executed");
}

fn squeeze_v_roundtrip<const H: usize>() {
    let mut x = [0i64; H];
    let mut i = 0;
    while i < H {
        x[i] = any_sq_sample() as i64;
        i += 1;
    }
    let enc = spec::forward_squeeze_1d::<H>(&x);
    let mut buf = [0i32; H];
    let mut i = 0;
    while i < H {
        kani::assume(enc[i] > i32::MIN as i64 && enc[i] < i32::MAX as i64);
        buf[i] = enc[i] as i32;
        i += 1;
    }
    let mut g = MutableSubgrid::from_buf(&mut buf[..], 1, H, 1);
    squeeze::inverse_v_i32_base(&mut g);
    let mut i = 0;
    while i < H {
        assert!(buf[i] as i64 == x[i]);
        i += 1;
    }
}

// @prop C03
// @tier quick
// @unit jxl_modular::transform::squeeze::inverse_v_i32_base
// @sym every column of 5 samples with |v| < 2^16
// @bound height 5 (4 in the thorough tier), width 1 (columns are independent)
// @oblig inverse_v(forward_squeeze_spec(column)) == column
#[kani::proof]
#[kani::unwind(7)]
pub fn c03_squeeze_v_roundtrip_h5() {
    squeeze_v_roundtrip::<5>();
    kani::cover!(true, "executed");
}

// @prop C03
// @tier thorough
// @unit jxl_modular::transform::squeeze::inverse_v_i32_base
// @sym every column of 4 samples with |v| < 2^16
// @bound height 4, width 1
// @oblig inverse_v(forward_squeeze_spec(column)) == column
#[kani::proof]
#[kani::unwind(7)]
pub fn c03_squeeze_v_roundtrip_h4() {
    squeeze_v_roundtrip::<4>();
    kani::cover!(true, "executed");
}

fn squeeze_narrow_vs_wide<const W: usize>(vertical: bool) {
    let mut wide = [0i32; W];
    let mut narrow = [0i16; W];
    let mut i = 0;
    while i < W {
        let v: i16 = kani::any();
        narrow[i] = v;
        wide[i] = v as i32;
        i += 1;
    }
    let input = wide;
    {
        let (w, h) = if vertical { (1, W) } else { (W, 1) };
        let mut g = MutableSubgrid::from_buf(&mut wide[..], w, h, w);
        let mut gn = MutableSubgrid::from_buf(&mut narrow[..], w, h, w);
        if vertical {
            squeeze::inverse_v_i32_base(&mut g);
            squeeze::inverse_v_i16_base(&mut gn);
        } else {
            squeeze::inverse_h_i32_base(&mut g);
            squeeze::inverse_h_i16_base(&mut gn);
        }
    }
    // "16 bits suffice" stated semantically: every average and every reconstructed sample of the
    // wide decode is within 13 bits (then every intermediate of the wide run fits 16 bits)
    let aw = (W + 1) / 2;
    let mut ok = true;
    let mut i = 0;
    while i < W {
        ok &= wide[i] >= -4095 && wide[i] <= 4095;
        if i < aw {
            ok &= input[i] >= -4095 && input[i] <= 4095;
        }
        i += 1;
    }
    if ok {
        let mut i = 0;
        while i < W {
            assert!(narrow[i] as i32 == wide[i]);
            i += 1;
        }
        kani::cover!(wide[0] != wide[1], "non-constant reconstruction within 13 bits");
    }
}

// @prop C12
// @tier quick
// @unit jxl_modular::transform::squeeze::{inverse_h_i16_base,inverse_h_i32_base,inverse_v_i16_base,inverse_v_i32_base,tendency_i16,tendency_i32}
// @sym every row / column of 5 i16 values (averages and residuals)
// @bound length 5 (odd: includes the lone last average); horizontal and vertical
// @assume "16-bit buffers suffice" is taken semantically: the averages and all samples reconstructed by the wide decode lie within [-4095, 4095] (12 bits + sign; at -4096 the 16-bit tendency intermediate 4a-3c-b+6 no longer fits and the kernels legitimately differ)
// @oblig narrow (i16) and wide (i32) scalar inverse squeeze produce identical samples
// @outside the x86 SIMD drivers (inverse_h_i16_x86_64_avx2 & co.), which Kani cannot model
#[kani::proof]
#[kani::unwind(7)]
pub fn c12_squeeze_i16_equals_i32() {
    squeeze_narrow_vs_wide::<5>(false);
    squeeze_narrow_vs_wide::<5>(true);
}

// @prop C12
// @tier thorough
// @unit as c12_squeeze_i16_equals_i32
// @sym every row / column of 6 i16 values (even length: no lone last average) and of 3 values
// @bound lengths 6 and 3; horizontal and vertical
// @assume as c12_squeeze_i16_equals_i32
// @oblig narrow (i16) and wide (i32) scalar inverse squeeze produce identical samples
// @outside the x86 SIMD drivers
#[kani::proof]
#[kani::unwind(8)]
pub fn c12_squeeze_i16_equals_i32_len6_len3() {
    squeeze_narrow_vs_wide::<6>(false);
    squeeze_narrow_vs_wide::<6>(true);
    squeeze_narrow_vs_wide::<3>(false);
    squeeze_narrow_vs_wide::<3>(true);
}

fn predictor_scan<const PW: usize, const PH: usize>(check_preds: bool, check_props: bool, fast_at: Option<(usize, usize)>) {
    let mut img = [[0i64; PW]; PH];
    let mut st = PredictorState::<i32>::new();
    st.reset(PW as u32, &[], None);
    let preds = [
        Predictor::Zero, Predictor::West, Predictor::North, Predictor::AvgWestAndNorth, Predictor::Select,
        Predictor::Gradient, Predictor::NorthEast, Predictor::NorthWest, Predictor::WestWest,
        Predictor::AvgWestAndNorthWest, Predictor::AvgNorthAndNorthWest, Predictor::AvgNorthAndNorthEast,
        Predictor::AvgAll,
    ];
    let ids = [0u32, 1, 2, 3, 4, 5, 7, 8, 9, 10, 11, 12, 13];
    let mut y = 0;
    while y < PH {
        let mut prev_prop9 = 0i64;
        let mut x = 0;
        while x < PW {
            let nb = spec::neighbours::<PW, PH>(&img, x, y);
            if fast_at == Some((x, y)) {
                let fast = st.properties::<false>();
                let mut k = 0;
                while k < 13 {
                    assert!(predictor_fns::predict::<i32, false>(preds[k], &fast) as i64 == spec::predict(ids[k], &nb));
                    k += 1;
                }
                let mut k = 2;
                while k <= 14 {
                    assert!(fast.get(k) as i64 == spec::property(k, &nb, x, y, prev_prop9));
                    k += 1;
                }
            }
            let props = st.properties::<true>();
            if check_preds {
                let mut k = 0;
                while k < 13 {
                    assert!(predictor_fns::predict::<i32, true>(preds[k], &props) as i64 == spec::predict(ids[k], &nb));
                    k += 1;
                }
            }
            if check_props {
                let mut k = 2;
                while k <= 14 {
                    assert!(props.get(k) as i64 == spec::property(k, &nb, x, y, prev_prop9));
                    k += 1;
                }
            }
            prev_prop9 = spec::property(9, &nb, x, y, prev_prop9);
            let s = any_sq_sample();
            img[y][x] = s as i64;
            props.record(s);
            x += 1;
        }
        y += 1;
    }
    kani::cover!(img[PH - 1][PW - 1] != img[PH - 2][PW - 1] && img[0][0] != 0, "non-trivial image scanned to the end");
}

// @prop C03
// @tier quick
// @unit jxl_modular::predictor::{PredictorState::{new,reset,properties},Properties::{get,record},Predictor::predict} (EDGE = true)
// @sym all 9 samples of a 3x3 channel (|v| < 2^16), scanned in raster order through the real incremental predictor state
// @bound one 3x3 channel (every edge rule of H.3 occurs: first row, first column, last column, second row), no previous channels, self-correcting predictor off; 13 predictors at each position
// @oblig at every position every predictor value equals the neighbourhood definition of H.3/H.4 evaluated on the 2-D array
#[kani::proof]
#[kani::unwind(15)]
pub fn c03_predictors_match_spec_3x3() {
    predictor_scan::<3, 3>(true, false, None);
}

// @prop C03
// @tier quick
// @unit jxl_modular::predictor::{PredictorState,Properties::{get,record}} (EDGE = true)
// @sym all 9 samples of a 3x3 channel (|v| < 2^16)
// @bound as c03_predictors_match_spec_3x3, for the 13 context properties 2..=14 (incl. property 8, which depends on the previous pixel's property 9)
// @oblig every property equals its definition in H.4.1 evaluated on the 2-D array
#[kani::proof]
#[kani::unwind(15)]
pub fn c03_properties_match_spec_3x3() {
    predictor_scan::<3, 3>(false, true, None);
}

// @prop C03
// @tier quick
// @unit jxl_modular::predictor (EDGE = false fast path at an interior pixel)
// @sym all 15 samples of a 5x3 channel (|v| < 2^16)
// @bound the single interior pixel (2,2) of a 5x3 channel, reached through the real incremental state
// @oblig the interior fast path (no edge tests) yields the spec's predictor values and properties
#[kani::proof]
#[kani::unwind(17)]
pub fn c03_predictors_interior_fast_path() {
    predictor_scan::<5, 3>(false, false, Some((2, 2)));
}

// @prop C03
// @tier thorough
// @unit jxl_modular::predictor (EDGE = true at every pixel, EDGE = false at the interior pixel)
// @sym all 15 samples of a 5x3 channel (|v| < 2^16)
// @bound one 5x3 channel; NEE and WW away from the edges are exercised
// @oblig as the 3x3 harness, at all 15 positions
#[kani::proof]
#[kani::unwind(17)]
pub fn c03_predictors_and_properties_match_spec_5x3() {
    predictor_scan::<5, 3>(true, true, Some((2, 2)));
}

/// ISO/IEC 18181-1 H.6.2.1 default squeeze parameters for `count` channels starting at `first`
/// whose first channel is w x h; `second_same` = the next channel has the same size.
fn spec_default_squeeze(first: u32, count: u32, mut w: u32, mut h: u32, second_same: bool, out: &mut [(bool, bool, u32, u32); 16]) -> usize {
    let mut n = 0;
    if count > 2 && second_same {
        out[n] = (true, false, first + 1, 2);
        n += 1;
        out[n] = (false, false, first + 1, 2);
        n += 1;
    }
    if h >= w && h > 8 {
        out[n] = (false, true, first, count);
        n += 1;
        h = (h + 1) / 2;
    }
    while w > 8 || h > 8 {
        if w > 8 {
            out[n] = (true, true, first, count);
            n += 1;
            w = (w + 1) / 2;
        }
        if h > 8 {
            out[n] = (false, true, first, count);
            n += 1;
            h = (h + 1) / 2;
        }
    }
    n
}

/// Stand-in for `Vec::push` in the default-parameter harness: same effect, but the growth path is
/// replaced by an assertion that the capacity suffices (the hook pre-reserves 16 steps). Without
/// it a push after a conditional push reallocates under a symbolic capacity, which CBMC cannot
/// bit-blast (out of memory in propositional reduction).
pub fn push_within_capacity_stub<T, A: std::alloc::Allocator>(v: &mut Vec<T, A>, value: T) {
    let len = v.len();
    assert!(len < v.capacity(), "stub: push within the reserved capacity");
    unsafe {
        core::ptr::write(v.as_mut_ptr().add(len), value);
        v.set_len(len + 1);
    }
}

/// One band: (w, h) symbolic inside a box in which the number of steps is constant (so the step
/// vector has a concrete length), channel configuration concrete.
fn default_squeeze_band(wr: (u32, u32), hr: (u32, u32), three: bool, meta: bool, second_same: bool) {
    let (w, h): (u32, u32) = (kani::any(), kani::any());
    kani::assume(w >= wr.0 && w <= wr.1 && h >= hr.0 && h <= hr.1);
    let first = meta as u32;
    let (w2, h2) = if second_same { (w, h) } else { (w, h + 1) };
    let mut got = [(false, false, 0u32, 0u32); 8];
    let mut want = [(false, false, 0u32, 0u32); 16];
    let n_got = match (meta, three) {
        (false, false) => jxl_modular::verif::default_squeeze_params(0, &[(w, h)], &mut got),
        (true, false) => jxl_modular::verif::default_squeeze_params(1, &[(3, 1), (w, h)], &mut got),
        (false, true) => jxl_modular::verif::default_squeeze_params(0, &[(w, h), (w2, h2), (w, h)], &mut got),
        (true, true) => jxl_modular::verif::default_squeeze_params(1, &[(3, 1), (w, h), (w2, h2), (w, h)], &mut got),
    };
    let count = if three { 3 } else { 1 };
    let n_want = spec_default_squeeze(first, count, w, h, second_same, &mut want);
    assert!(n_got == n_want);
    let mut i = 0;
    while i < 8 {
        if i < n_want {
            assert!(got[i] == want[i]);
        }
        i += 1;
    }
}

// @prop C03
// @tier quick
// @unit jxl_modular::transform::Squeeze::set_default_params
// @sym width and height of the first channel symbolic inside boxes in which the number of steps is constant (9..=16 x 9..=16 around the square diagonal; 9..=16 x 1..=8; 1..=8 x 9..=16; 1..=8 x 1..=8); channel configuration (1 or 3 channels, meta channel, second channel same size) enumerated as constants (the step list is a Vec: its length must be concrete)
// @bound sides up to 64, at most 4 channels
// @assume stub: Vec::push replaced by a push that asserts spare capacity instead of growing (the hook reserves 16 steps; the assertion is checked)
// @oblig the derived squeeze step list (direction, in_place, begin_c, num_c per step, and the number of steps) equals the default-parameter algorithm of H.6.2.1: a square or tall image starts with a vertical step, then horizontal/vertical alternate while a side exceeds 8; the chroma pre-steps appear iff there are more than 2 channels and the first two have equal size
#[kani::proof]
#[kani::unwind(10)]
#[kani::stub(std::vec::Vec::push, push_within_capacity_stub)]
pub fn c03_default_squeeze_params_match_spec() {
    default_squeeze_band((9, 16), (9, 16), false, false, false);
    default_squeeze_band((9, 16), (9, 16), true, true, true);
    default_squeeze_band((9, 16), (9, 16), true, false, false);
    default_squeeze_band((9, 16), (1, 8), false, true, false);
    default_squeeze_band((1, 8), (9, 16), false, false, false);
    default_squeeze_band((1, 8), (1, 8), true, false, true);
    kani::cover!(true, "all bands executed");
}

// @prop C03
// @tier quick
// @unit jxl_modular::transform::Squeeze::set_default_params
// @sym width and height of the first channel symbolic inside boxes in which the number of steps is constant (17..=32 x 9..=16; 9..=16 x 17..=32; 17..=64 x 17..=64, where the step count varies); channel configuration (1 or 3 channels, meta channel, second channel same size) enumerated as constants (the step list is a Vec: its length must be concrete)
// @bound sides up to 64, at most 4 channels
// @assume stub: Vec::push replaced by a push that asserts spare capacity instead of growing (the hook reserves 16 steps; the assertion is checked)
// @oblig the derived squeeze step list (direction, in_place, begin_c, num_c per step, and the number of steps) equals the default-parameter algorithm of H.6.2.1: a square or tall image starts with a vertical step, then horizontal/vertical alternate while a side exceeds 8; the chroma pre-steps appear iff there are more than 2 channels and the first two have equal size
#[kani::proof]
#[kani::unwind(10)]
#[kani::stub(std::vec::Vec::push, push_within_capacity_stub)]
pub fn c03_default_squeeze_params_match_spec_larger() {
    default_squeeze_band((17, 32), (9, 16), false, false, false);
    default_squeeze_band((9, 16), (17, 32), false, false, false);
    default_squeeze_band((17, 64), (17, 64), true, false, true);
    kani::cover!(true, "all bands executed");
}

/// ISO/IEC 18181-1 H.6.4 (inverse palette), implicit entries for `index >= nb_colours`, evaluated
/// in unbounded (here 64-bit) arithmetic as the specification's pseudo-code is.
fn spec_palette_implicit(index: i32, nb_colours: i32, c: u32, bit_depth: u32) -> i64 {
    let index = (index - nb_colours) as i64;
    let max = (1i64 << bit_depth) - 1;
    if index < 64 {
        ((index >> (2 * c)) % 4) * max / 4 + (1i64 << bit_depth.saturating_sub(3))
    } else {
        let mut index = index - 64;
        let mut i = 0;
        while i < c {
            index /= 5;
            i += 1;
        }
        (index % 5) * max / 4
    }
}

fn palette_implicit_case(bit_depth: u32) {
    use jxl_grid::SharedSubgrid;
    use jxl_modular::verif::palette as pv;
    let index: i32 = kani::any();
    kani::assume(index >= 1 && index < 1 + 64 + 125); // one explicit colour, then both cubes
    let pal_buf = [7i32, 8, 9]; // 1 colour x 3 channels
    let palette = SharedSubgrid::from_buf(&pal_buf[..], 1, 3, 1);
    let (mut b0, mut b1, mut b2) = ([index], [0i32], [0i32]);
    let targets = vec![
        MutableSubgrid::from_buf(&mut b0[..], 1, 1, 1),
        MutableSubgrid::from_buf(&mut b1[..], 1, 1, 1),
        MutableSubgrid::from_buf(&mut b2[..], 1, 1, 1),
    ];
    let pal = pv::new_palette(0, 3, 1, 0, Predictor::Zero, None);
    pv::inverse_inner::<i32>(&pal, palette, targets, bit_depth);
    assert!(b0[0] as i64 == spec_palette_implicit(index, 1, 0, bit_depth));
    assert!(b1[0] as i64 == spec_palette_implicit(index, 1, 1, bit_depth));
    assert!(b2[0] as i64 == spec_palette_implicit(index, 1, 2, bit_depth));
    kani::cover!(index < 65, "small cube entry");
    kani::cover!(index >= 65, "large cube entry");
}

// @prop C03 C01
// @tier quick
// @unit jxl_modular::transform::palette::Palette::inverse_inner (implicit entries, wide samples)
// @sym a 1x1 image over 3 channels with one explicit colour; the index any implicit entry of the small (64) or large (125) cube; declared bit depth 8
// @bound one pixel, three channels (libjxl and the specification's pseudo-code differ for channels >= 3: open question in DESIGN 8.9, not encoded), no delta entries (they go through the predictor harnesses)
// @oblig every channel of an implicit palette entry equals the value of H.6.4 computed without overflow; no panic
#[kani::proof]
#[kani::unwind(6)]
pub fn c03_palette_implicit_entries_depth_8() {
    palette_implicit_case(8);
}

// @prop C03 C01
// @tier quick
// @unit jxl_modular::transform::palette::Palette::inverse_inner (implicit entries, wide samples)
// @sym as c03_palette_implicit_entries_depth_8 with the declared bit depth any value 1..=31 (31 = the widest integer depth the header parser accepts)
// @bound one pixel, three channels, no delta entries; depth 32 (float samples) is a separate harness
// @oblig as above for every depth: the product (index % 4) * (2^depth - 1) must not overflow the 32-bit intermediate (checked builds panic, optimised builds wrap to a wrong sample)
#[kani::proof]
#[kani::unwind(6)]
pub fn c03_palette_implicit_entries_any_integer_depth() {
    let d: u32 = kani::any();
    kani::assume(d >= 1 && d <= 31);
    palette_implicit_case(d);
}
