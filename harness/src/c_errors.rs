//! C11: end-of-data stays classified as "need more data" through every error conversion chain.
use std::io::ErrorKind;

fn leaf(kind_sel: u8, var_sel: u8) -> (jxl_bitstream::Error, bool) {
    // a symbolic bitstream-level error: Io(kind) for a few kinds, or a validation error
    match var_sel % 4 {
        0 => {
            let (kind, eof) = match kind_sel % 4 {
                0 => (ErrorKind::UnexpectedEof, true),
                1 => (ErrorKind::InvalidData, false),
                2 => (ErrorKind::Other, false),
                _ => (ErrorKind::WriteZero, false),
            };
            (jxl_bitstream::Error::Io(kind.into()), eof)
        }
        1 => (jxl_bitstream::Error::InvalidBox, false),
        2 => (jxl_bitstream::Error::NonZeroPadding, false),
        _ => (jxl_bitstream::Error::ValidationFailed("x"), false),
    }
}

fn modular_of(b: jxl_bitstream::Error, via_decoder: bool) -> jxl_modular::Error {
    if via_decoder { jxl_coding::Error::from(b).into() } else { b.into() }
}

fn vardct_of(b: jxl_bitstream::Error, path: u8) -> jxl_vardct::Error {
    match path % 4 {
        0 => b.into(),
        1 => jxl_coding::Error::from(b).into(),
        2 => modular_of(b, false).into(),
        _ => modular_of(b, true).into(),
    }
}

fn frame_of(b: jxl_bitstream::Error, path: u8) -> jxl_frame::Error {
    match path % 8 {
        0 => b.into(),
        1 => jxl_coding::Error::from(b).into(),
        2 => modular_of(b, false).into(),
        3 => modular_of(b, true).into(),
        p => vardct_of(b, p - 4).into(),
    }
}

// @prop C11
// @tier quick
// @unit unexpected_eof() of jxl_bitstream::Error, jxl_coding::Error, jxl_modular::Error, jxl_vardct::Error, jxl_frame::Error and their From conversions (the `?` chains of the section parsers)
// @sym the bitstream-level error (Io with 4 kinds, or 3 validation variants) and the conversion chain into jxl_frame::Error (8 chains: direct, via coding, via modular x2, via vardct x4)
// @bound complete over the 8 conversion chains that the From impls allow into jxl_frame::Error
// @oblig the converted error is classified as unexpected end of data if and only if the bitstream error was Io(UnexpectedEof): truncation never turns into a hard error on the way up, and corruption never turns into "need more data"
#[kani::proof]
#[kani::unwind(3)]
pub fn c11_eof_classification_through_frame_error_chains() {
    let (k, v, path): (u8, u8, u8) = (kani::any(), kani::any(), kani::any());
    let (b, is_eof) = leaf(k, v);
    assert!(b.unexpected_eof() == is_eof);
    let e = frame_of(b, path);
    assert!(e.unexpected_eof() == is_eof);
    kani::cover!(is_eof && path % 8 == 2, "EOF in a Modular sub-bitstream header");
    kani::cover!(is_eof && path % 8 == 7, "EOF through vardct -> modular -> coding");
    kani::cover!(!is_eof, "a real error stays an error");
    core::mem::forget(e);
}

// @prop C11
// @tier quick
// @unit unexpected_eof() of jxl_render::Error and jxl_color::Error and their From conversions
// @sym the bitstream-level error and the conversion chain into jxl_render::Error (direct, via coding, via modular x2, via frame x8, via color x2)
// @bound complete over the 14 conversion chains
// @oblig as the frame-error harness, for the error type the renderer and JxlImage::try_init classify
#[kani::proof]
#[kani::unwind(3)]
pub fn c11_eof_classification_through_render_error_chains() {
    let (k, v, path): (u8, u8, u8) = (kani::any(), kani::any(), kani::any());
    let (b, is_eof) = leaf(k, v);
    let e: jxl_render::Error = match path % 14 {
        0 => b.into(),
        1 => jxl_coding::Error::from(b).into(),
        2 => modular_of(b, false).into(),
        3 => modular_of(b, true).into(),
        4 => jxl_color::Error::from(b).into(),
        5 => jxl_color::Error::from(jxl_coding::Error::from(b)).into(),
        p => frame_of(b, p - 6).into(),
    };
    assert!(e.unexpected_eof() == is_eof);
    kani::cover!(is_eof && path % 14 == 5, "EOF while reading the ICC stream");
    kani::cover!(is_eof && path % 14 == 13, "EOF through frame -> vardct -> modular -> coding");
    core::mem::forget(e);
}
