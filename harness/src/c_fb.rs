//! jxl-oxide output buffers: C15 (orientation maps, stream == interleaved buffer, sample conversion).
use jxl_grid::AlignedGrid;
use jxl_image::BitDepth;
use jxl_oxide::verif as ov;
use jxl_oxide::FrameBuffer;
use jxl_render::{ImageBuffer, Region};

const W: usize = 3;
const H: usize = 2;

/// ISO/IEC 18181-1 orientation (same numbering as Exif): where source pixel (x, y) of a WxH
/// image goes in the oriented output.
fn spec_oriented(o: u32, x: usize, y: usize) -> (usize, usize) {
    match o {
        1 => (x, y),
        2 => (W - 1 - x, y),         // mirrored horizontally
        3 => (W - 1 - x, H - 1 - y), // rotated 180
        4 => (x, H - 1 - y),         // mirrored vertically
        5 => (y, x),                 // transposed
        6 => (H - 1 - y, x),         // rotated 90 clockwise
        7 => (H - 1 - y, W - 1 - x), // anti-transposed
        _ => (y, W - 1 - x),         // rotated 90 counter-clockwise
    }
}

fn coded_grid(base: f32) -> ImageBuffer {
    // row-major 3x2, value = base + 10*y + x (hook constructor: alignment offset 0, so that every
    // index stays concrete)
    let v = vec![base, base + 1.0, base + 2.0, base + 10.0, base + 11.0, base + 12.0];
    ImageBuffer::F32(AlignedGrid::verif_from_vec(W, H, v))
}

// @prop C15
// @tier quick
// @unit jxl_oxide::FrameBuffer::from_grids
// @sym orientation 1 (one harness per orientation: the output allocation size must be concrete); a 3x2 copy region whose origin is shifted by -1..=1 on both axes against the 3x2 channel grids (partly outside => zeros); two channels with position-coded samples; the probed pixel
// @bound 3x2 pixels, 2 channels (the map is affine in the coordinates; container sizes concrete)
// @oblig output dimensions are the oriented dimensions; every output sample equals the source sample that the specification's orientation map sends there (or 0 where the copy region leaves the grid); channel c is at interleaved position c
#[kani::proof]
#[kani::unwind(8)]
pub fn c15_from_grids_orientation_1() {
    from_grids_case(1);
}

// @prop C15
// @tier quick
// @unit jxl_oxide::FrameBuffer::from_grids
// @sym orientation 2 (one harness per orientation: the output allocation size must be concrete); a 3x2 copy region whose origin is shifted by -1..=1 on both axes against the 3x2 channel grids (partly outside => zeros); two channels with position-coded samples; the probed pixel
// @bound 3x2 pixels, 2 channels (the map is affine in the coordinates; container sizes concrete)
// @oblig output dimensions are the oriented dimensions; every output sample equals the source sample that the specification's orientation map sends there (or 0 where the copy region leaves the grid); channel c is at interleaved position c
#[kani::proof]
#[kani::unwind(8)]
pub fn c15_from_grids_orientation_2() {
    from_grids_case(2);
}

// @prop C15
// @tier quick
// @unit jxl_oxide::FrameBuffer::from_grids
// @sym orientation 3 (one harness per orientation: the output allocation size must be concrete); a 3x2 copy region whose origin is shifted by -1..=1 on both axes against the 3x2 channel grids (partly outside => zeros); two channels with position-coded samples; the probed pixel
// @bound 3x2 pixels, 2 channels (the map is affine in the coordinates; container sizes concrete)
// @oblig output dimensions are the oriented dimensions; every output sample equals the source sample that the specification's orientation map sends there (or 0 where the copy region leaves the grid); channel c is at interleaved position c
#[kani::proof]
#[kani::unwind(8)]
pub fn c15_from_grids_orientation_3() {
    from_grids_case(3);
}

// @prop C15
// @tier quick
// @unit jxl_oxide::FrameBuffer::from_grids
// @sym orientation 4 (one harness per orientation: the output allocation size must be concrete); a 3x2 copy region whose origin is shifted by -1..=1 on both axes against the 3x2 channel grids (partly outside => zeros); two channels with position-coded samples; the probed pixel
// @bound 3x2 pixels, 2 channels (the map is affine in the coordinates; container sizes concrete)
// @oblig output dimensions are the oriented dimensions; every output sample equals the source sample that the specification's orientation map sends there (or 0 where the copy region leaves the grid); channel c is at interleaved position c
#[kani::proof]
#[kani::unwind(8)]
pub fn c15_from_grids_orientation_4() {
    from_grids_case(4);
}

// @prop C15
// @tier quick
// @unit jxl_oxide::FrameBuffer::from_grids
// @sym orientation 5 (one harness per orientation: the output allocation size must be concrete); a 3x2 copy region whose origin is shifted by -1..=1 on both axes against the 3x2 channel grids (partly outside => zeros); two channels with position-coded samples; the probed pixel
// @bound 3x2 pixels, 2 channels (the map is affine in the coordinates; container sizes concrete)
// @oblig output dimensions are the oriented dimensions; every output sample equals the source sample that the specification's orientation map sends there (or 0 where the copy region leaves the grid); channel c is at interleaved position c
#[kani::proof]
#[kani::unwind(8)]
pub fn c15_from_grids_orientation_5() {
    from_grids_case(5);
}

// @prop C15
// @tier quick
// @unit jxl_oxide::FrameBuffer::from_grids
// @sym orientation 6 (one harness per orientation: the output allocation size must be concrete); a 3x2 copy region whose origin is shifted by -1..=1 on both axes against the 3x2 channel grids (partly outside => zeros); two channels with position-coded samples; the probed pixel
// @bound 3x2 pixels, 2 channels (the map is affine in the coordinates; container sizes concrete)
// @oblig output dimensions are the oriented dimensions; every output sample equals the source sample that the specification's orientation map sends there (or 0 where the copy region leaves the grid); channel c is at interleaved position c
#[kani::proof]
#[kani::unwind(8)]
pub fn c15_from_grids_orientation_6() {
    from_grids_case(6);
}

// @prop C15
// @tier quick
// @unit jxl_oxide::FrameBuffer::from_grids
// @sym orientation 7 (one harness per orientation: the output allocation size must be concrete); a 3x2 copy region whose origin is shifted by -1..=1 on both axes against the 3x2 channel grids (partly outside => zeros); two channels with position-coded samples; the probed pixel
// @bound 3x2 pixels, 2 channels (the map is affine in the coordinates; container sizes concrete)
// @oblig output dimensions are the oriented dimensions; every output sample equals the source sample that the specification's orientation map sends there (or 0 where the copy region leaves the grid); channel c is at interleaved position c
#[kani::proof]
#[kani::unwind(8)]
pub fn c15_from_grids_orientation_7() {
    from_grids_case(7);
}

// @prop C15
// @tier quick
// @unit jxl_oxide::FrameBuffer::from_grids
// @sym orientation 8 (one harness per orientation: the output allocation size must be concrete); a 3x2 copy region whose origin is shifted by -1..=1 on both axes against the 3x2 channel grids (partly outside => zeros); two channels with position-coded samples; the probed pixel
// @bound 3x2 pixels, 2 channels (the map is affine in the coordinates; container sizes concrete)
// @oblig output dimensions are the oriented dimensions; every output sample equals the source sample that the specification's orientation map sends there (or 0 where the copy region leaves the grid); channel c is at interleaved position c
#[kani::proof]
#[kani::unwind(8)]
pub fn c15_from_grids_orientation_8() {
    from_grids_case(8);
}

fn from_grids_case(o: u32) {
    let g0 = coded_grid(100.0);
    let g1 = coded_grid(200.0);
    let (dx, dy): (i32, i32) = (kani::any(), kani::any());
    kani::assume(dx >= -1 && dx <= 1 && dy >= -1 && dy <= 1);
    let grid_region = Region { left: 5, top: 7, width: W as u32, height: H as u32 };
    let copy = Region { left: 5 + dx, top: 7 + dy, width: W as u32, height: H as u32 };
    let depth = BitDepth::IntegerSample { bits_per_sample: 8 };
    let fb = FrameBuffer::from_grids(&[&g0, &g1], &[depth, depth], &[grid_region, grid_region], copy, o);
    let (ow, oh) = if o <= 4 { (W, H) } else { (H, W) };
    assert!(fb.width() == ow && fb.height() == oh && fb.channels() == 2);
    // probe one source pixel of the copy region
    let (x, y): (usize, usize) = (kani::any(), kani::any());
    kani::assume(x < W && y < H);
    let (tx, ty) = spec_oriented(o, x, y);
    let sx = x as i32 + dx;
    let sy = y as i32 + dy;
    let inside = sx >= 0 && sx < W as i32 && sy >= 0 && sy < H as i32;
    let want0 = if inside { 100.0 + (10 * sy + sx) as f32 } else { 0.0 };
    let want1 = if inside { 200.0 + (10 * sy + sx) as f32 } else { 0.0 };
    let buf = fb.buf();
    assert!(buf[(ty * ow + tx) * 2] == want0);
    assert!(buf[(ty * ow + tx) * 2 + 1] == want1);
    kani::cover!(inside && x == 2 && y == 1, "last pixel inside");
    kani::cover!(!inside, "copy region leaves the grid");
}

// @prop C15
// @tier quick
// @unit jxl_oxide::ImageStream::{write_to_buffer,to_original_coord,width,height,channels} vs jxl_oxide::FrameBuffer::from_grids
// @sym orientation 1 over two position-coded 3x2 channels; stream consumed in two write calls split after 5 samples (inside a pixel; symbolic split point in the thorough tier); the compared element
// @bound 3x2 pixels, 2 channels, f32 samples
// @oblig the sample stream equals the interleaved frame buffer of the same channels element by element (both honour the orientation identically) and its reported dimensions are the oriented ones; splitting the reads does not change the sequence
#[kani::proof]
#[kani::unwind(14)]
pub fn c15_stream_equals_buffer_orientation_1() {
    stream_case(1, Some(5));
}

// @prop C15
// @tier quick
// @unit jxl_oxide::ImageStream::{write_to_buffer,to_original_coord,width,height,channels} vs jxl_oxide::FrameBuffer::from_grids
// @sym orientation 2 over two position-coded 3x2 channels; stream consumed in two write calls split after 5 samples (inside a pixel; symbolic split point in the thorough tier); the compared element
// @bound 3x2 pixels, 2 channels, f32 samples
// @oblig the sample stream equals the interleaved frame buffer of the same channels element by element (both honour the orientation identically) and its reported dimensions are the oriented ones; splitting the reads does not change the sequence
#[kani::proof]
#[kani::unwind(14)]
pub fn c15_stream_equals_buffer_orientation_2() {
    stream_case(2, Some(5));
}

// @prop C15
// @tier quick
// @unit jxl_oxide::ImageStream::{write_to_buffer,to_original_coord,width,height,channels} vs jxl_oxide::FrameBuffer::from_grids
// @sym orientation 3 over two position-coded 3x2 channels; stream consumed in two write calls split after 5 samples (inside a pixel; symbolic split point in the thorough tier); the compared element
// @bound 3x2 pixels, 2 channels, f32 samples
// @oblig the sample stream equals the interleaved frame buffer of the same channels element by element (both honour the orientation identically) and its reported dimensions are the oriented ones; splitting the reads does not change the sequence
#[kani::proof]
#[kani::unwind(14)]
pub fn c15_stream_equals_buffer_orientation_3() {
    stream_case(3, Some(5));
}

// @prop C15
// @tier quick
// @unit jxl_oxide::ImageStream::{write_to_buffer,to_original_coord,width,height,channels} vs jxl_oxide::FrameBuffer::from_grids
// @sym orientation 4 over two position-coded 3x2 channels; stream consumed in two write calls split after 5 samples (inside a pixel; symbolic split point in the thorough tier); the compared element
// @bound 3x2 pixels, 2 channels, f32 samples
// @oblig the sample stream equals the interleaved frame buffer of the same channels element by element (both honour the orientation identically) and its reported dimensions are the oriented ones; splitting the reads does not change the sequence
#[kani::proof]
#[kani::unwind(14)]
pub fn c15_stream_equals_buffer_orientation_4() {
    stream_case(4, Some(5));
}

// @prop C15
// @tier quick
// @unit jxl_oxide::ImageStream::{write_to_buffer,to_original_coord,width,height,channels} vs jxl_oxide::FrameBuffer::from_grids
// @sym orientation 5 over two position-coded 3x2 channels; stream consumed in two write calls split after 5 samples (inside a pixel; symbolic split point in the thorough tier); the compared element
// @bound 3x2 pixels, 2 channels, f32 samples
// @oblig the sample stream equals the interleaved frame buffer of the same channels element by element (both honour the orientation identically) and its reported dimensions are the oriented ones; splitting the reads does not change the sequence
#[kani::proof]
#[kani::unwind(14)]
pub fn c15_stream_equals_buffer_orientation_5() {
    stream_case(5, Some(5));
}

// @prop C15
// @tier quick
// @unit jxl_oxide::ImageStream::{write_to_buffer,to_original_coord,width,height,channels} vs jxl_oxide::FrameBuffer::from_grids
// @sym orientation 6 over two position-coded 3x2 channels; stream consumed in two write calls split after 5 samples (inside a pixel; symbolic split point in the thorough tier); the compared element
// @bound 3x2 pixels, 2 channels, f32 samples
// @oblig the sample stream equals the interleaved frame buffer of the same channels element by element (both honour the orientation identically) and its reported dimensions are the oriented ones; splitting the reads does not change the sequence
#[kani::proof]
#[kani::unwind(14)]
pub fn c15_stream_equals_buffer_orientation_6() {
    stream_case(6, Some(5));
}

// @prop C15
// @tier quick
// @unit jxl_oxide::ImageStream::{write_to_buffer,to_original_coord,width,height,channels} vs jxl_oxide::FrameBuffer::from_grids
// @sym orientation 7 over two position-coded 3x2 channels; stream consumed in two write calls split after 5 samples (inside a pixel; symbolic split point in the thorough tier); the compared element
// @bound 3x2 pixels, 2 channels, f32 samples
// @oblig the sample stream equals the interleaved frame buffer of the same channels element by element (both honour the orientation identically) and its reported dimensions are the oriented ones; splitting the reads does not change the sequence
#[kani::proof]
#[kani::unwind(14)]
pub fn c15_stream_equals_buffer_orientation_7() {
    stream_case(7, Some(5));
}

// @prop C15
// @tier quick
// @unit jxl_oxide::ImageStream::{write_to_buffer,to_original_coord,width,height,channels} vs jxl_oxide::FrameBuffer::from_grids
// @sym orientation 8 over two position-coded 3x2 channels; stream consumed in two write calls split after 5 samples (inside a pixel; symbolic split point in the thorough tier); the compared element
// @bound 3x2 pixels, 2 channels, f32 samples
// @oblig the sample stream equals the interleaved frame buffer of the same channels element by element (both honour the orientation identically) and its reported dimensions are the oriented ones; splitting the reads does not change the sequence
#[kani::proof]
#[kani::unwind(14)]
pub fn c15_stream_equals_buffer_orientation_8() {
    stream_case(8, Some(5));
}

fn stream_case(o: u32, fixed_cut: Option<usize>) {
    let g0 = coded_grid(100.0);
    let g1 = coded_grid(200.0);
    let region = Region { left: 0, top: 0, width: W as u32, height: H as u32 };
    let depth = BitDepth::IntegerSample { bits_per_sample: 8 };
    let fb = FrameBuffer::from_grids(&[&g0, &g1], &[depth, depth], &[region, region], region, o);
    let (ow, oh) = if o <= 4 { (W as u32, H as u32) } else { (H as u32, W as u32) };
    let mut stream = ov::new_image_stream(o, ow, oh, vec![&g0, &g1], vec![(0, 0), (0, 0)], vec![depth, depth]);
    assert!(stream.width() == ow && stream.height() == oh && stream.channels() == 2);
    let mut out = [0f32; W * H * 2];
    let cut: usize = match fixed_cut {
        Some(c) => c,
        None => {
            let c: usize = kani::any();
            kani::assume(c <= W * H * 2);
            c
        }
    };
    let n1 = stream.write_to_buffer(&mut out[..cut]);
    assert!(n1 == cut);
    let n2 = stream.write_to_buffer(&mut out[cut..]);
    assert!(n1 + n2 == W * H * 2);
    let i: usize = kani::any();
    kani::assume(i < W * H * 2);
    assert!(out[i] == fb.buf()[i]);
    kani::cover!(cut == 5, "split inside a pixel");
}

fn round_clamp(v: f32, max: f32) -> f32 {
    // correctly rounded (half up) and clamped, in exact arithmetic on the scaled value
    let s = v * max + 0.5;
    if s.is_nan() {
        0.0
    } else if s <= 0.0 {
        0.0
    } else if s >= max {
        max
    } else {
        s
    }
}

// @prop C15
// @tier quick
// @unit jxl_oxide::fb::private::Sealed::{copy_from_f32,copy_from_grid} for u8, u16, f32
// @sym every f32 (incl. NaN, infinities, negative); integer grid samples: every i32 with 8-bit depth (fast path) and every i16 with 16-bit depth (fast path), and a generic depth 1..=24 through the float path
// @bound complete over the sample values
// @oblig u8/u16 outputs are floor(clamp(v*max + 0.5, 0, max)) - the rounded, clamped float - and NaN gives 0; the 8-bit / 16-bit integer fast paths give exactly what the float path gives for in-range samples and clamp out-of-range ones; f32 output of an integer sample is sample/(2^bits-1)
#[kani::proof]
#[kani::unwind(10)]
pub fn c15_sample_conversion() {
    let v: f32 = kani::any();
    let a: u8 = ov::sample_from_f32::<u8>(v);
    assert!(a as f32 == round_clamp(v, 255.0).floor());
    let b: u16 = ov::sample_from_f32::<u16>(v);
    assert!(b as f32 == round_clamp(v, 65535.0).floor());
    let f: f32 = ov::sample_from_f32::<f32>(v);
    assert!(f.to_bits() == v.to_bits());

    // integer fast paths
    let s: i32 = kani::any();
    let gb = ImageBuffer::I32(AlignedGrid::verif_from_vec(1, 1, vec![s]));
    let d8 = BitDepth::IntegerSample { bits_per_sample: 8 };
    let fast: u8 = ov::sample_from_grid::<u8>(&gb, 0, 0, d8);
    let want = if s < 0 { 0 } else if s > 255 { 255 } else { s as u8 };
    assert!(fast == want);
    if s >= 0 && s <= 255 {
        // same as going through the float path
        let via_float: u8 = ov::sample_from_f32::<u8>(d8.parse_integer_sample(s));
        assert!(via_float == fast);
    }
    let d16 = BitDepth::IntegerSample { bits_per_sample: 16 };
    let fast16: u16 = ov::sample_from_grid::<u16>(&gb, 0, 0, d16);
    let want16 = if s < 0 { 0 } else if s > 65535 { 65535 } else { s as u16 };
    assert!(fast16 == want16);
    let asf: f32 = ov::sample_from_grid::<f32>(&gb, 0, 0, d8);
    assert!(asf == s as f32 / 255.0);
    // out of the grid => 0
    let zero: u8 = ov::sample_from_grid::<u8>(&gb, 1, 0, d8);
    assert!(zero == 0);
    kani::cover!(v.is_nan(), "NaN input");
    kani::cover!(v > 0.4999 && v < 0.5001 && a == 128, "rounding at one half");
    kani::cover!(s == 255 && fast == 255, "8-bit maximum");
}

// @prop C15
// @tier quick
// @unit jxl_oxide::fb::private::Sealed::copy_from_grid for u8, u16, f32 over ImageBuffer::I16 (the narrow Modular buffers)
// @sym every i16 sample in a 16-bit grid; 8-bit and 16-bit declared depth
// @bound complete over the sample values
// @oblig the integer fast paths over a 16-bit grid give exactly what they give over a 32-bit grid holding the same sample, i.e. the clamped sample (u8: 0..=255, u16: 0..=65535), and the float output is sample/(2^bits-1); a sample outside the grid is 0
#[kani::proof]
#[kani::unwind(10)]
pub fn c15_sample_conversion_i16_grid() {
    let s: i16 = kani::any();
    let g16 = ImageBuffer::I16(AlignedGrid::verif_from_vec(1, 1, vec![s]));
    let g32 = ImageBuffer::I32(AlignedGrid::verif_from_vec(1, 1, vec![s as i32]));
    let d8 = BitDepth::IntegerSample { bits_per_sample: 8 };
    let d16 = BitDepth::IntegerSample { bits_per_sample: 16 };
    let a: u8 = ov::sample_from_grid::<u8>(&g16, 0, 0, d8);
    let want = if s < 0 { 0 } else if s > 255 { 255 } else { s as u8 };
    assert!(a == want);
    assert!(a == ov::sample_from_grid::<u8>(&g32, 0, 0, d8));
    let b: u16 = ov::sample_from_grid::<u16>(&g16, 0, 0, d16);
    assert!(b == if s < 0 { 0 } else { s as u16 });
    assert!(b == ov::sample_from_grid::<u16>(&g32, 0, 0, d16));
    let f: f32 = ov::sample_from_grid::<f32>(&g16, 0, 0, d8);
    assert!(f == s as f32 / 255.0);
    let zero: u8 = ov::sample_from_grid::<u8>(&g16, 0, 1, d8);
    assert!(zero == 0);
    kani::cover!(s > 255 && a == 255, "8-bit overshoot saturates");
    kani::cover!(s < 0 && b == 0, "negative sample clamps to 0");
}

// @prop C15
// @tier thorough
// @unit jxl_oxide::ImageStream::write_to_buffer
// @sym orientation 7, symbolic split point 0..=12 of the two write calls
// @bound 3x2 pixels, 2 channels
// @oblig the sample sequence does not depend on how the reads are split
#[kani::proof]
#[kani::unwind(14)]
pub fn c15_stream_any_split_orientation_7() {
    stream_case(7, None);
}
