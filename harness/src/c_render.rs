//! jxl-render frame render handle: C08 (a failed render never wedges the image) and the
//! sequentialised monitor obligations of C20.
use jxl_frame::Frame;
use jxl_image::ImageHeader;
use jxl_render::verif as rv;
use jxl_render::verif::{FrameRender, FrameRenderHandle};
use jxl_render::{Error, Region};
use jxl_threadpool::JxlThreadPool;
use std::sync::atomic::{AtomicUsize, Ordering};
use std::sync::{Arc, Condvar, LockResult, MutexGuard};

static NOTIFY_CALLS: AtomicUsize = AtomicUsize::new(0);
static RENDER_RUNS: AtomicUsize = AtomicUsize::new(0);

/// Environment stub: in a single-caller history nobody else can finish the render, so reaching
/// `Condvar::wait` means the caller blocks forever.
fn wait_stub<'a, T>(_cv: &Condvar, _guard: MutexGuard<'a, T>) -> LockResult<MutexGuard<'a, T>> {
    panic!("handle left in Rendering: the caller waits for a render nobody is performing")
}

fn notify_all_stub(_cv: &Condvar) {
    NOTIFY_CALLS.fetch_add(1, Ordering::Relaxed);
}

/// Image and frame headers with every field at its specified default (BundleDefault, the same
/// constructor the parsers use for `all_default` bundles), a single-entry TOC, no section data.
fn tiny_frame() -> Arc<jxl_render::IndexedFrame> {
    use jxl_oxide_common::BundleDefault;
    let image_header = Arc::new(ImageHeader {
        size: jxl_image::SizeHeader::default_with_context(()),
        metadata: jxl_image::ImageMetadata::default_with_context(()),
    });
    let header = jxl_frame::FrameHeader::default_with_context(&image_header);
    let toc = jxl_frame::data::Toc::verif_single_entry(0);
    let frame = Frame::verif_from_parts(image_header, header, toc, None);
    Arc::new(rv::indexed_frame(frame, 0))
}

fn region() -> Region {
    Region::with_size(8, 8)
}

/// render_op supplied by the harness (the API's own extension point): outcome chosen per call.
fn make_handle(outcome: u8) -> Arc<FrameRenderHandle<i32>> {
    let op: rv::RenderOp<i32> = Arc::new(move |_state, _region| {
        RENDER_RUNS.fetch_add(1, Ordering::Relaxed);
        match outcome {
            0 => FrameRender::Done(rv::empty_image(3)),
            _ => FrameRender::Err(Error::NotReady),
        }
    });
    rv::new_handle(tiny_frame(), region(), op)
}

fn set_pre_state(h: &FrameRenderHandle<i32>, pre: u8) {
    match pre {
        0 => {}
        1 => rv::set_state(h, FrameRender::Done(rv::empty_image(3))),
        2 => rv::set_state(h, FrameRender::Blended(Arc::new(rv::empty_image(3)))),
        3 => rv::set_state(h, FrameRender::Err(Error::NotReady)),
        _ => rv::set_state(h, FrameRender::ErrTaken),
    }
}

/// One public render call (run_with_image + blend) from quiescent pre-state `pre`, with every
/// outcome of the render operation and of compositing; then a second call.
fn render_call_case(pre: u8, render_outcome: u8, pre_outcome: u8, comp_outcome: u8) {
    let h = make_handle(render_outcome);
    set_pre_state(&h, pre);
    rv::PREPROCESS_OUTCOME.store(pre_outcome, Ordering::Relaxed);
    rv::COMPOSITE_OUTCOME.store(comp_outcome, Ordering::Relaxed);
    let pool = JxlThreadPool::none();

    let first = Arc::clone(&h).run_with_image().and_then(|img| rv::blend(&img, Some(region()), &pool));
    // (a) quiescence: when the call has returned, nobody is rendering
    let code = rv::state_code(&h);
    assert!(code != 1, "handle left in Rendering after the call returned");
    let first_ok = first.is_ok();
    core::mem::forget(first);

    // (b) a later call returns (never reaches Condvar::wait) whatever happened before
    let second = Arc::clone(&h).run_with_image().and_then(|img| rv::blend(&img, Some(region()), &pool));
    assert!(rv::state_code(&h) != 1, "handle left in Rendering after the second call");
    if first_ok {
        // a successful render is cached: the second call succeeds without rendering again
        assert!(second.is_ok());
        assert!(RENDER_RUNS.load(Ordering::Relaxed) <= 1);
    }
    kani::cover!(first_ok, "first call succeeds");
    kani::cover!(!first_ok && comp_outcome == 1 && render_outcome == 0 && pre_outcome == 0, "compositing failed after a successful render");
    kani::cover!(!first_ok && pre_outcome == 2, "preprocessing failed");
    core::mem::forget(second);
    core::mem::forget(h);
}

// @prop C08 C20
// @tier quick
// @unit jxl_render::state::FrameRenderHandle::{run_with_image,start_render,done_render,wait_until_render} jxl_render::image::RenderedImage::blend
// @sym pre-state None; outcome of the render operation (Done / Err), of composite_preprocess (Ok(false) / Ok(true) / Err) and of composite (Ok / Err); two consecutive public render calls
// @bound history of 2 calls from the given pre-state; quiescence (a) is an inductive step over pre-states (the sibling harnesses start from Done, Blended, Err, ErrTaken)
// @assume render_op is the harness closure (API extension point); composite_preprocess/composite are replaced by stand-ins returning an arbitrary outcome of their Result type (jxl_render::verif::*_outcome); Condvar::wait is a stub that fails: with a single caller nobody else can complete a render; a tiny concrete 8x8 frame header supplies the IndexedFrame
// @oblig when a render call returns the handle is not in Rendering; the next call returns without waiting on the condition variable; a successful result is reused without running the render operation again
#[kani::proof]
#[kani::unwind(2)]
#[kani::stub(std::sync::Condvar::wait, wait_stub)]
#[kani::stub(std::sync::Condvar::notify_all, notify_all_stub)]
#[kani::stub(jxl_render::image::composite_preprocess, jxl_render::verif::composite_preprocess_outcome)]
#[kani::stub(jxl_render::image::composite, jxl_render::verif::composite_outcome)]
pub fn c08_render_call_from_none() {
    render_call_case(0, 0, 0, 1);
}
