//! No-op stand-in for the `tracing` crate, used only by the /verif Kani harness
//! workspace (kani-compiler 0.68 ICEs on the real crate). Macros do not
//! evaluate their arguments -- identical to real `tracing` with no subscriber.
#[derive(Clone, Copy, Debug, PartialEq, Eq, PartialOrd, Ord)]
pub struct Level(u8);
impl Level {
    pub const TRACE: Level = Level(0);
    pub const DEBUG: Level = Level(1);
    pub const INFO: Level = Level(2);
    pub const WARN: Level = Level(3);
    pub const ERROR: Level = Level(4);
}
pub mod level_filters {
    #[derive(Clone, Copy, Debug, PartialEq, Eq)]
    pub struct LevelFilter(u8);
    impl LevelFilter {
        pub const OFF: LevelFilter = LevelFilter(0);
        pub const ERROR: LevelFilter = LevelFilter(1);
        pub const WARN: LevelFilter = LevelFilter(2);
        pub const INFO: LevelFilter = LevelFilter(3);
        pub const DEBUG: LevelFilter = LevelFilter(4);
        pub const TRACE: LevelFilter = LevelFilter(5);
    }
}
#[derive(Clone, Debug, Default)]
pub struct Span;
pub struct Entered;
pub struct EnteredSpan;
impl Span {
    #[inline(always)]
    pub fn none() -> Span { Span }
    #[inline(always)]
    pub fn current() -> Span { Span }
    #[inline(always)]
    pub fn enter(&self) -> Entered { Entered }
    #[inline(always)]
    pub fn entered(self) -> EnteredSpan { EnteredSpan }
    #[inline(always)]
    pub fn in_scope<F: FnOnce() -> T, T>(&self, f: F) -> T { f() }
    #[inline(always)]
    pub fn record<Q: ?Sized, V: ?Sized>(&self, _field: &Q, _value: &V) -> &Self { self }
}
#[macro_export] macro_rules! trace { ($($t:tt)*) => { () }; }
#[macro_export] macro_rules! debug { ($($t:tt)*) => { () }; }
#[macro_export] macro_rules! info { ($($t:tt)*) => { () }; }
#[macro_export] macro_rules! warn { ($($t:tt)*) => { () }; }
#[macro_export] macro_rules! error { ($($t:tt)*) => { () }; }
#[macro_export] macro_rules! event { ($($t:tt)*) => { () }; }
#[macro_export] macro_rules! span { ($($t:tt)*) => { $crate::Span }; }
#[macro_export] macro_rules! trace_span { ($($t:tt)*) => { $crate::Span }; }
#[macro_export] macro_rules! debug_span { ($($t:tt)*) => { $crate::Span }; }
#[macro_export] macro_rules! info_span { ($($t:tt)*) => { $crate::Span }; }
#[macro_export] macro_rules! warn_span { ($($t:tt)*) => { $crate::Span }; }
#[macro_export] macro_rules! error_span { ($($t:tt)*) => { $crate::Span }; }
