//! Native (non-Kani) sanity checks of harness inputs and spec models against the real crates.
use jxl_bitstream::Bitstream;
use jxl_frame::{Frame, FrameContext};
use jxl_image::ImageHeader;
use jxl_oxide_common::Bundle;
use jxl_threadpool::JxlThreadPool;
use std::sync::Arc;

#[test]
fn tiny_frame_bytes_parse() {
    let bytes: [u8; 8] = [0xff, 0x0a, 0x41, 0x06, 0x01, 0x00, 0x00, 0x00];
    let mut bs = Bitstream::new(&bytes[..]);
    let image_header = Arc::new(ImageHeader::parse(&mut bs, ()).unwrap());
    assert_eq!((image_header.size.width, image_header.size.height), (8, 8));
    let ctx = FrameContext { image_header, tracker: None, pool: JxlThreadPool::none() };
    let frame = Frame::parse(&mut bs, ctx).unwrap();
    assert_eq!(frame.header().width, 8);
    println!("toc {:?} read bits {}", frame.toc(), bs.num_read_bits());
}

// ---- model-level exploration of the container reference semantics (finds counterexamples fast)
use jxl_verif_harness::spec::container::*;

fn feed_all(s: &mut CState, buf: &[u8], base: usize, out: &mut Vec<Ev>, consumed: &mut usize) -> bool {
    let mut pos = 0usize;
    loop {
        match spec_step(s, buf, &mut pos) {
            StepOut::NeedMore => { *consumed = pos; return true; }
            StepOut::Err => return false,
            StepOut::Event(mut e) => {
                if e.kind == 2 || e.kind == 5 { e.off += base; }
                if let Some(last) = out.last_mut() {
                    if (e.kind == 2 || e.kind == 5) && last.kind == e.kind && last.ty == e.ty && last.off + last.len == e.off {
                        last.len += e.len;
                        continue;
                    }
                }
                if !((e.kind == 2 || e.kind == 5) && e.len == 0) { out.push(e); }
            }
        }
    }
}

#[test]
fn model_chunking_search() {
    let mut seed = 0x1234_5678_9abc_def0u64;
    let mut rnd = move || { seed ^= seed << 13; seed ^= seed >> 7; seed ^= seed << 17; seed };
    let types: [&[u8; 4]; 5] = [b"jxlc", b"jxlp", b"Exif", b"brob", b"jxll"];
    let mut found = 0;
    for _ in 0..6_000_000 {
        let mut buf = [0u8; 12];
        for b in buf.iter_mut() { *b = (rnd() % 4) as u8; }
        buf[3] = [0u8, 1, 8, 9, 10, 12, 13][(rnd() % 7) as usize];
        buf[4..8].copy_from_slice(types[(rnd() % 5) as usize]);
        if rnd() % 4 == 0 { buf[8] = 0x80; }
        let len = 1 + (rnd() % 12) as usize;
        let k = (rnd() % (len as u64 + 1)) as usize;
        let small = |r: u64| -> Option<u64> { if r % 3 == 0 { None } else { Some((r >> 8) % 20) } };
        let ty = |r: u64| -> [u8; 4] { *types[(r % 5) as usize] };
        let pre = CState { arm: (rnd() % 5) as u8, box_type: ty(rnd()), box_size: small(rnd()),
            brotli_box_type: if rnd() % 2 == 0 { None } else { Some(ty(rnd())) }, bytes_left: small(rnd()).map(|x| x as usize), kind: (rnd() % 4) as u8,
            pending_no_more_aux_box: rnd() % 2 == 0, jxlp_state: (rnd() % 4) as u8, jxlp_index: (rnd() % 3) as u32 };
        if !state_valid(&pre) { continue; }
        if pre.arm == 0 { let sig = b"\x00\x00\x00\x0cJXL \x0d\x0a\x87\x0a"; if rnd() % 2 == 0 { buf.copy_from_slice(sig); if rnd() % 4 == 0 { buf[(rnd() % 12) as usize] ^= 1; } } else { buf[0] = 0xff; buf[1] = 0x0a; } }
        let (mut sa, mut sb) = (pre, pre);
        let (mut ea, mut eb) = (Vec::new(), Vec::new());
        let (mut ca, mut c1, mut c2) = (0, 0, 0);
        let ok_a = feed_all(&mut sa, &buf[..len], 0, &mut ea, &mut ca);
        let ok_b1 = feed_all(&mut sb, &buf[..k], 0, &mut eb, &mut c1);
        let ok_b = ok_b1 && feed_all(&mut sb, &buf[c1..len], c1, &mut eb, &mut c2);
        if ok_a != ok_b || (ok_a && (ea != eb || normalized(&sa) != normalized(&sb) || ca != c1 + c2)) {
            println!("buf {:02x?} len {len} k {k} pre jxlp {}/{}\n  whole: ok {ok_a} {:?}\n  split: ok {ok_b} {:?}\n  sa {:?}\n  sb {:?}", &buf[..len], pre.jxlp_state, pre.jxlp_index, ea, eb, sa, sb);
            found += 1;
            if found >= 3 { break; }
        }
    }
    assert_eq!(found, 0, "chunk-dependent behaviour in the reference semantics");
}

#[test]
fn model_chunking_cex() {
    let buf: [u8; 12] = [0, 0, 0, 11, 98, 114, 111, 226, 0, 0, 0, 0];
    let pre = CState { arm: 1, box_type: [98, 120, 108, 112], box_size: Some(u64::MAX), brotli_box_type: Some([255; 4]), bytes_left: Some(usize::MAX), kind: 2,
        pending_no_more_aux_box: false, jxlp_state: 2, jxlp_index: 131842 };
    let (len, k) = (12usize, 10usize);
    let (mut sa, mut sb) = (pre, pre);
    let (mut ea, mut eb) = (Vec::new(), Vec::new());
    let (mut ca, mut c1, mut c2) = (0, 0, 0);
    let ok_a = feed_all(&mut sa, &buf[..len], 0, &mut ea, &mut ca);
    let ok_b1 = feed_all(&mut sb, &buf[..k], 0, &mut eb, &mut c1);
    let ok_b = ok_b1 && feed_all(&mut sb, &buf[c1..len], c1, &mut eb, &mut c2);
    println!("whole ok {ok_a} c {ca} {:?}\nsplit ok {ok_b} c {} {:?}\n{:?}\n{:?}", ea, c1 + c2, eb, sa, sb);
}
