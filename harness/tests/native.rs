//! Native (non-Kani) sanity checks of harness inputs and spec models against the real crates.
use jxl_bitstream::Bitstream;
use jxl_frame::{Frame, FrameContext};
use jxl_image::ImageHeader;
use jxl_oxide_common::Bundle;
use jxl_threadpool::JxlThreadPool;
use std::sync::Arc;

#[test]
fn tiny_frame_bytes_parse() {
    let bytes: [u8; 8] = [0xff, 0x0a, 0x41, 0x06, 0x01, 0x00, 0x00, 0x00];
    let mut bs = Bitstream::new(&bytes[..]);
    let image_header = Arc::new(ImageHeader::parse(&mut bs, ()).unwrap());
    assert_eq!((image_header.size.width, image_header.size.height), (8, 8));
    let ctx = FrameContext { image_header, tracker: None, pool: JxlThreadPool::none() };
    let frame = Frame::parse(&mut bs, ctx).unwrap();
    assert_eq!(frame.header().width, 8);
    println!("toc {:?} read bits {}", frame.toc(), bs.num_read_bits());
}
