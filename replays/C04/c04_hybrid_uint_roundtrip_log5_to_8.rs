// counterexample for c_coding::c04_hybrid_uint_roundtrip_log5_to_8 (property C04) found by CBMC; replay with
//   /verif/bin/check --replay /verif/replays/C04/c04_hybrid_uint_roundtrip_log5_to_8.rs
// repo: {"head": "74aab4444ecdedf8094c67b344fb9660c3cebedc", "dirty": true, "diff_sha256": "50853759784e8c61"}
// module: c_coding
/// Test generated for harness `c_coding::c04_hybrid_uint_roundtrip_log5_to_8` 
///
/// Check for `assertion`: "assertion failed: cbs.num_read_bits() == expect_bits as usize"

#[test]
fn kani_concrete_playback_c04_hybrid_uint_roundtrip_log5_to_8_8452447036012053118() {
    let concrete_vals: Vec<Vec<u8>> = vec![
        // 191
        vec![191],
        // 63
        vec![63],
    ];
    kani::concrete_playback_run(concrete_vals, c04_hybrid_uint_roundtrip_log5_to_8);
}

