// counterexample for c_coding::c04_hybrid_uint_roundtrip_log5_to_8 (property C04) found by CBMC; replay with
//   /verif/bin/check --replay /verif/replays/C04/c04_hybrid_uint_roundtrip_log5_to_8.rs
// repo: {"head": "736f7b025cf48e86662bf74aeb57bde61d8d7ccc", "dirty": true, "diff_sha256": "928c76f6179b9396"}
// module: c_coding
/// Test generated for harness `c_coding::c04_hybrid_uint_roundtrip_log5_to_8` 
///
/// Check for `assertion`: "attempt to subtract with overflow"

#[test]
fn kani_concrete_playback_c04_hybrid_uint_roundtrip_log5_to_8_14571059427738597208() {
    let concrete_vals: Vec<Vec<u8>> = vec![
        // 229
        vec![229],
        // 15
        vec![15],
        // 0
        vec![0, 0, 0, 0],
        // 18446742974197924016ul
        vec![176, 0, 0, 0, 0, 255, 255, 255],
        // 248
        vec![248],
        // 63
        vec![63],
        // 1
        vec![1, 0, 0, 0],
        // 18446742974198972416ul
        vec![0, 0, 16, 0, 0, 255, 255, 255],
        // 122
        vec![122],
        // 0
        vec![0],
    ];
    kani::concrete_playback_run(concrete_vals, c04_hybrid_uint_roundtrip_log5_to_8);
}

