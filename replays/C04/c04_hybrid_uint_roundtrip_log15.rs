// counterexample for c_coding::c04_hybrid_uint_roundtrip_log15 (property C04) found by CBMC; replay with
//   /verif/bin/check --replay /verif/replays/C04/c04_hybrid_uint_roundtrip_log15.rs
// repo: {"head": "736f7b025cf48e86662bf74aeb57bde61d8d7ccc", "dirty": true, "diff_sha256": "928c76f6179b9396"}
// module: c_coding
/// Test generated for harness `c_coding::c04_hybrid_uint_roundtrip_log15` 
///
/// Check for `assertion`: "attempt to subtract with overflow"

#[test]
fn kani_concrete_playback_c04_hybrid_uint_roundtrip_log15_7692418551388290281() {
    let concrete_vals: Vec<Vec<u8>> = vec![
        // 152
        vec![152],
        // 2
        vec![2],
    ];
    kani::concrete_playback_run(concrete_vals, c04_hybrid_uint_roundtrip_log15);
}

