// counterexample for c_coding::c11_hybrid_uint_truncated_extra_bits_is_eof (property C04) found by CBMC; replay with
//   /verif/bin/check --replay /verif/replays/C04/c11_hybrid_uint_truncated_extra_bits_is_eof.rs
// repo: {"head": "736f7b025cf48e86662bf74aeb57bde61d8d7ccc", "dirty": true, "diff_sha256": "928c76f6179b9396"}
// module: c_coding
/// Test generated for harness `c_coding::c11_hybrid_uint_truncated_extra_bits_is_eof` 
///
/// Check for `assertion`: "attempt to subtract with overflow"

#[test]
fn kani_concrete_playback_c11_hybrid_uint_truncated_extra_bits_is_eof_11145328899774409031() {
    let concrete_vals: Vec<Vec<u8>> = vec![
        // 229
        vec![229],
        // 8
        vec![8],
    ];
    kani::concrete_playback_run(concrete_vals, c11_hybrid_uint_truncated_extra_bits_is_eof);
}

