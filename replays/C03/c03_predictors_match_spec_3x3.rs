// counterexample for c_modular::c03_predictors_match_spec_3x3 (property C03) found by CBMC; replay with
//   /verif/bin/check --replay /verif/replays/C03/c03_predictors_match_spec_3x3.rs
// repo: {"head": "74aab4444ecdedf8094c67b344fb9660c3cebedc", "dirty": true, "diff_sha256": "720d16a0f346a380"}
// module: c_modular
/// Test generated for harness `c_modular::c03_predictors_match_spec_3x3` 
///
/// Check for `assertion`: "assertion failed: predictor_fns::predict::<i32, true>(preds[k], &props) as i64 ==
spec::predict(ids[k], &nb)"

#[test]
fn kani_concrete_playback_c03_predictors_match_spec_3x3_17587270711267899205() {
    let concrete_vals: Vec<Vec<u8>> = vec![
        // -12738
        vec![62, 206, 255, 255],
        // -504
        vec![8, 254, 255, 255],
        // 470
        vec![214, 1, 0, 0],
        // 0
        vec![0, 0, 0, 0],
    ];
    kani::concrete_playback_run(concrete_vals, c03_predictors_match_spec_3x3);
}

