// counterexample for c_modular::c03_default_squeeze_params_match_spec_larger (property C03) found by CBMC; replay with
//   /verif/bin/check --replay /verif/replays/C03/c03_default_squeeze_params_match_spec_larger.rs
// repo: {"head": "393c6d4f96c5f4d594f3e6ae550ed701d42136c5", "dirty": true, "diff_sha256": "799a201ecf8a9daf"}
// module: c_modular
/// Test generated for harness `c_modular::c03_default_squeeze_params_match_spec_larger` 
///
/// Check for `assertion`: "assertion failed: got[i] == want[i]"
///
/// # Warning
///
/// Concrete playback tests combined with stubs or contracts is highly
/// experimental, and subject to change.
///
/// The original harness has stubs which are not applied to this test.
/// This may cause a mismatch of non-deterministic values if the stub
/// creates any non-deterministic value.
/// The execution path may also differ, which can be used to refine the stub
/// logic.

#[test]
fn kani_concrete_playback_c03_default_squeeze_params_match_spec_larger_11503611029772938638() {
    let concrete_vals: Vec<Vec<u8>> = vec![
        // 30
        vec![30, 0, 0, 0],
        // 16
        vec![16, 0, 0, 0],
        // 16
        vec![16, 0, 0, 0],
        // 20
        vec![20, 0, 0, 0],
        // 64
        vec![64, 0, 0, 0],
        // 64
        vec![64, 0, 0, 0],
    ];
    kani::concrete_playback_run(concrete_vals, c03_default_squeeze_params_match_spec_larger);
}

