// counterexample for c_icc::c18_icc_header_prediction_table (property C18) found by CBMC; replay with
//   /verif/bin/check --replay /verif/replays/C18/c18_icc_header_prediction_table.rs
// repo: {"head": "74aab4444ecdedf8094c67b344fb9660c3cebedc", "dirty": true, "diff_sha256": "22517c8c399d9726"}
// module: c_icc
/// Test generated for harness `c_icc::c18_icc_header_prediction_table` 
///
/// Check for `assertion`: "assertion failed: iv::predict_header(i, size, &header[..]) ==
spec_predict_header(i, size, &header)"

#[test]
fn kani_concrete_playback_c18_icc_header_prediction_table_17859633383288713166() {
    let concrete_vals: Vec<Vec<u8>> = vec![
        // 85
        vec![85],
        // 85
        vec![85],
        // 85
        vec![85],
        // 85
        vec![85],
        // 85
        vec![85],
        // 85
        vec![85],
        // 85
        vec![85],
        // 85
        vec![85],
        // 85
        vec![85],
        // 85
        vec![85],
        // 85
        vec![85],
        // 85
        vec![85],
        // 85
        vec![85],
        // 85
        vec![85],
        // 85
        vec![85],
        // 85
        vec![85],
        // 85
        vec![85],
        // 85
        vec![85],
        // 85
        vec![85],
        // 85
        vec![85],
        // 85
        vec![85],
        // 85
        vec![85],
        // 85
        vec![85],
        // 85
        vec![85],
        // 85
        vec![85],
        // 85
        vec![85],
        // 85
        vec![85],
        // 85
        vec![85],
        // 85
        vec![85],
        // 85
        vec![85],
        // 85
        vec![85],
        // 85
        vec![85],
        // 85
        vec![85],
        // 85
        vec![85],
        // 85
        vec![85],
        // 85
        vec![85],
        // 85
        vec![85],
        // 85
        vec![85],
        // 85
        vec![85],
        // 85
        vec![85],
        // 83
        vec![83],
        // 85
        vec![85],
        // 85
        vec![85],
        // 85
        vec![85],
        // 85
        vec![85],
        // 85
        vec![85],
        // 85
        vec![85],
        // 85
        vec![85],
        // 85
        vec![85],
        // 85
        vec![85],
        // 85
        vec![85],
        // 85
        vec![85],
        // 85
        vec![85],
        // 85
        vec![85],
        // 85
        vec![85],
        // 85
        vec![85],
        // 85
        vec![85],
        // 85
        vec![85],
        // 85
        vec![85],
        // 85
        vec![85],
        // 85
        vec![85],
        // 85
        vec![85],
        // 85
        vec![85],
        // 85
        vec![85],
        // 85
        vec![85],
        // 85
        vec![85],
        // 85
        vec![85],
        // 85
        vec![85],
        // 85
        vec![85],
        // 85
        vec![85],
        // 85
        vec![85],
        // 85
        vec![85],
        // 85
        vec![85],
        // 85
        vec![85],
        // 85
        vec![85],
        // 85
        vec![85],
        // 85
        vec![85],
        // 85
        vec![85],
        // 85
        vec![85],
        // 85
        vec![85],
        // 85
        vec![85],
        // 85
        vec![85],
        // 85
        vec![85],
        // 85
        vec![85],
        // 85
        vec![85],
        // 85
        vec![85],
        // 85
        vec![85],
        // 85
        vec![85],
        // 85
        vec![85],
        // 85
        vec![85],
        // 85
        vec![85],
        // 85
        vec![85],
        // 85
        vec![85],
        // 85
        vec![85],
        // 85
        vec![85],
        // 85
        vec![85],
        // 85
        vec![85],
        // 85
        vec![85],
        // 85
        vec![85],
        // 85
        vec![85],
        // 85
        vec![85],
        // 85
        vec![85],
        // 85
        vec![85],
        // 85
        vec![85],
        // 85
        vec![85],
        // 85
        vec![85],
        // 85
        vec![85],
        // 85
        vec![85],
        // 85
        vec![85],
        // 85
        vec![85],
        // 85
        vec![85],
        // 85
        vec![85],
        // 85
        vec![85],
        // 85
        vec![85],
        // 85
        vec![85],
        // 85
        vec![85],
        // 85
        vec![85],
        // 85
        vec![85],
        // 85
        vec![85],
        // 85
        vec![85],
        // 85
        vec![85],
        // 85
        vec![85],
        // 85
        vec![85],
        // 85
        vec![85],
        // 85
        vec![85],
        // 85
        vec![85],
        // 85
        vec![85],
        // 85
        vec![85],
        // 4294967295
        vec![255, 255, 255, 255],
        // 43ul
        vec![43, 0, 0, 0, 0, 0, 0, 0],
    ];
    kani::concrete_playback_run(concrete_vals, c18_icc_header_prediction_table);
}

