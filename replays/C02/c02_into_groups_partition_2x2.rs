// counterexample for c_grid::c02_into_groups_partition_2x2 (property C02) found by CBMC; replay with
//   /verif/bin/check --replay /verif/replays/C02/c02_into_groups_partition_2x2.rs
// repo: {"head": "74aab4444ecdedf8094c67b344fb9660c3cebedc", "dirty": true, "diff_sha256": "022165eecc955957"}
// module: c_grid
/// Test generated for harness `c_grid::c02_into_groups_partition_2x2` 
///
/// Check for `assertion`: "assertion failed: grp.width() == core::cmp::min(gw, w - cx * gw)"

#[test]
fn kani_concrete_playback_c02_into_groups_partition_2x2_17502308195915120745() {
    let concrete_vals: Vec<Vec<u8>> = vec![
        // 5ul
        vec![5, 0, 0, 0, 0, 0, 0, 0],
        // 6ul
        vec![6, 0, 0, 0, 0, 0, 0, 0],
        // 6ul
        vec![6, 0, 0, 0, 0, 0, 0, 0],
        // 3ul
        vec![3, 0, 0, 0, 0, 0, 0, 0],
        // 5ul
        vec![5, 0, 0, 0, 0, 0, 0, 0],
        // 1ul
        vec![1, 0, 0, 0, 0, 0, 0, 0],
        // 0ul
        vec![0, 0, 0, 0, 0, 0, 0, 0],
        // 0ul
        vec![0, 0, 0, 0, 0, 0, 0, 0],
        // 0ul
        vec![0, 0, 0, 0, 0, 0, 0, 0],
    ];
    kani::concrete_playback_run(concrete_vals, c02_into_groups_partition_2x2);
}

