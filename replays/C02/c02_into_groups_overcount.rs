// counterexample for c_grid::c02_into_groups_overcount (property C02) found by CBMC; replay with
//   /verif/bin/check --replay /verif/replays/C02/c02_into_groups_overcount.rs
// repo: {"head": "75adb00f951e533c593b74d7f6f65a52e2fede11", "dirty": true, "diff_sha256": "add117f632351fb3"}
// module: c_grid
/// Test generated for harness `c_grid::c02_into_groups_overcount` 
///
/// Check for `assertion`: "attempt to subtract with overflow"

#[test]
fn kani_concrete_playback_c02_into_groups_overcount_16896075268803550929() {
    let concrete_vals: Vec<Vec<u8>> = vec![
        // 2ul
        vec![2, 0, 0, 0, 0, 0, 0, 0],
        // 4ul
        vec![4, 0, 0, 0, 0, 0, 0, 0],
        // 2ul
        vec![2, 0, 0, 0, 0, 0, 0, 0],
        // 3ul
        vec![3, 0, 0, 0, 0, 0, 0, 0],
        // 5ul
        vec![5, 0, 0, 0, 0, 0, 0, 0],
    ];
    kani::concrete_playback_run(concrete_vals, c02_into_groups_overcount);
}

