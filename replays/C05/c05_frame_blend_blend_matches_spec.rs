// counterexample for c_blend::c05_frame_blend_blend_matches_spec (property C05) found by CBMC; replay with
//   /verif/bin/check --replay /verif/replays/C05/c05_frame_blend_blend_matches_spec.rs
// repo: {"head": "c93c86cd220de3e0c91643d1355c9698304d6230", "dirty": true, "diff_sha256": "e0ab78d92b21cd9c"}
// module: c_blend
/// Test generated for harness `c_blend::c05_frame_blend_blend_matches_spec` 
///
/// Check for `assertion`: "assertion failed: got.to_bits() == want.to_bits() || got == want"

#[test]
fn kani_concrete_playback_c05_frame_blend_blend_matches_spec_14508589140514217472() {
    let concrete_vals: Vec<Vec<u8>> = vec![
        // 1
        vec![1],
        // 1
        vec![1, 0, 0, 0],
        // 0ul
        vec![0, 0, 0, 0, 0, 0, 0, 0],
        // 0ul
        vec![0, 0, 0, 0, 0, 0, 0, 0],
        // 3ul
        vec![3, 0, 0, 0, 0, 0, 0, 0],
        // 1ul
        vec![1, 0, 0, 0, 0, 0, 0, 0],
        // 7ul
        vec![7, 0, 0, 0, 0, 0, 0, 0],
    ];
    kani::concrete_playback_run(concrete_vals, c05_frame_blend_blend_matches_spec);
}

