// counterexample for c_errors::c11_eof_classification_through_render_error_chains (property C11) found by CBMC; replay with
//   /verif/bin/check --replay /verif/replays/C11/c11_eof_classification_through_render_error_chains.rs
// repo: {"head": "298f6fd2746975ba0a7760584575a27a8830a3a1", "dirty": true, "diff_sha256": "29f9b49811566e8e"}
// module: c_errors
/// Test generated for harness `c_errors::c11_eof_classification_through_render_error_chains` 
///
/// Check for `assertion`: "assertion failed: e.unexpected_eof() == is_eof"

#[test]
fn kani_concrete_playback_c11_eof_classification_through_render_error_chains_14953187861006777055() {
    let concrete_vals: Vec<Vec<u8>> = vec![
        // 0
        vec![0],
        // 0
        vec![0],
        // 64
        vec![64],
    ];
    kani::concrete_playback_run(concrete_vals, c11_eof_classification_through_render_error_chains);
}

