// counterexample for c_image::c14_preview_header_roundtrip (property C14) found by CBMC; replay with
//   /verif/bin/check --replay /verif/replays/C14/c14_preview_header_roundtrip.rs
// repo: {"head": "377b246b86fe1f830d8198ef2f89636ed8d8dade", "dirty": false, "diff_sha256": "e3b0c44298fc1c14"}
// module: c_image
/// Test generated for harness `c_image::c14_preview_header_roundtrip` 
///
/// Check for `assertion`: "assertion failed: p.width as u64 == spec_ratio_width(ratio, height)"

#[test]
fn kani_concrete_playback_c14_preview_header_roundtrip_11272226436189104301() {
    let concrete_vals: Vec<Vec<u8>> = vec![
        // 0
        vec![0],
        // 1
        vec![1, 0, 0, 0],
        // 1ul
        vec![1, 0, 0, 0, 0, 0, 0, 0],
        // 1ul
        vec![1, 0, 0, 0, 0, 0, 0, 0],
        // 174
        vec![174, 0, 0, 0],
        // 2147483712
        vec![64, 0, 0, 128],
        // 18446744073709551106ul
        vec![2, 254, 255, 255, 255, 255, 255, 255],
    ];
    kani::concrete_playback_run(concrete_vals, c14_preview_header_roundtrip);
}

/// Test generated for harness `c_image::c14_preview_header_roundtrip` 
///
/// Check for `assertion`: "assertion failed: bs.num_read_bits() == expect_bits"

#[test]
fn kani_concrete_playback_c14_preview_header_roundtrip_17946072884668448149() {
    let concrete_vals: Vec<Vec<u8>> = vec![
        // 1
        vec![1],
        // 7
        vec![7, 0, 0, 0],
        // 1ul
        vec![1, 0, 0, 0, 0, 0, 0, 0],
        // 2ul
        vec![2, 0, 0, 0, 0, 0, 0, 0],
        // 32
        vec![32, 0, 0, 0],
        // 512
        vec![0, 2, 0, 0],
        // 18446744073709551166ul
        vec![62, 254, 255, 255, 255, 255, 255, 255],
    ];
    kani::concrete_playback_run(concrete_vals, c14_preview_header_roundtrip);
}

