// counterexample for c_image::c14_colour_encoding_unknown_dci_p3 (property C14) found by CBMC; replay with
//   /verif/bin/check --replay /verif/replays/C14/c14_colour_encoding_unknown_dci_p3.rs
// repo: {"head": "736f7b025cf48e86662bf74aeb57bde61d8d7ccc", "dirty": true, "diff_sha256": "2001e78c52a89990"}
// module: c_image
/// Test generated for harness `c_image::c14_colour_encoding_unknown_dci_p3` 
///
/// Check for `assertion`: "This is a placeholder message; Kani doesn't support message formatted at runtime"

#[test]
fn kani_concrete_playback_c14_colour_encoding_unknown_dci_p3_8862845787992690056() {
    let concrete_vals: Vec<Vec<u8>> = vec![
        // 16777215
        vec![255, 255, 255, 0],
        // 1
        vec![1, 0, 0, 0],
        // 3
        vec![3, 0, 0, 0],
        // 18446744073709551231ul
        vec![127, 254, 255, 255, 255, 255, 255, 255],
    ];
    kani::concrete_playback_run(concrete_vals, c14_colour_encoding_unknown_dci_p3);
}

