// counterexample for c_bits::c14_f16_exact_all_halves (property C14) found by CBMC; replay with
//   /verif/bin/check --replay /verif/replays/C14/c14_f16_exact_all_halves.rs
// repo: {"head": "74aab4444ecdedf8094c67b344fb9660c3cebedc", "dirty": true, "diff_sha256": "c873f45cb1a28951"}
// module: c_bits
/// Test generated for harness `c_bits::c14_f16_exact_all_halves` 
///
/// Check for `assertion`: "assertion failed: v.to_bits() == bits"

#[test]
fn kani_concrete_playback_c14_f16_exact_all_halves_10082369389155064945() {
    let concrete_vals: Vec<Vec<u8>> = vec![
        // 4
        vec![4, 0],
        // 3ul
        vec![3, 0, 0, 0, 0, 0, 0, 0],
        // 18446744073709551592ul
        vec![232, 255, 255, 255, 255, 255, 255, 255],
        // 18446744073709551160ul
        vec![56, 254, 255, 255, 255, 255, 255, 255],
    ];
    kani::concrete_playback_run(concrete_vals, c14_f16_exact_all_halves);
}

