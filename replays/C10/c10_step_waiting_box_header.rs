// counterexample for c_container::c10_step_waiting_box_header (property C10) found by CBMC; replay with
//   /verif/bin/check --replay /verif/replays/C10/c10_step_waiting_box_header.rs
// repo: {"head": "736f7b025cf48e86662bf74aeb57bde61d8d7ccc", "dirty": true, "diff_sha256": "0d41a638d70b1b4d"}
// module: c_container
/// Test generated for harness `c_container::c10_step_waiting_box_header` 
///
/// Check for `assertion`: "assertion failed: state_matches(&spec, &post)"

#[test]
fn kani_concrete_playback_c10_step_waiting_box_header_4694525493983669407() {
    let concrete_vals: Vec<Vec<u8>> = vec![
        // 0
        vec![0],
        // 0
        vec![0],
        // 0
        vec![0],
        // 1
        vec![1],
        // 106
        vec![106],
        // 120
        vec![120],
        // 108
        vec![108],
        // 112
        vec![112],
        // 0
        vec![0],
        // 0
        vec![0],
        // 0
        vec![0],
        // 0
        vec![0],
        // 0
        vec![0],
        // 0
        vec![0],
        // 0
        vec![0],
        // 21
        vec![21],
        // 128
        vec![128],
        // 127
        vec![127],
        // 191
        vec![191],
        // 255
        vec![255],
        // 20ul
        vec![20, 0, 0, 0, 0, 0, 0, 0],
        // 1
        vec![1],
        // 18446744073709551615ul
        vec![255, 255, 255, 255, 255, 255, 255, 255],
        // 128
        vec![128],
        // 255
        vec![255],
        // 255
        vec![255],
        // 255
        vec![255],
        // 0
        vec![0],
        // 1
        vec![1],
        // 8388619ul
        vec![11, 0, 128, 0, 0, 0, 0, 0],
        // 0
        vec![0],
        // 1
        vec![1],
        // 2
        vec![2],
        // 8372222
        vec![254, 191, 127, 0],
    ];
    kani::concrete_playback_run(concrete_vals, c10_step_waiting_box_header);
}

