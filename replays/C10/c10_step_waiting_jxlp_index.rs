// counterexample for c_container::c10_step_waiting_jxlp_index (property C10) found by CBMC; replay with
//   /verif/bin/check --replay /verif/replays/C10/c10_step_waiting_jxlp_index.rs
// repo: {"head": "cf6008ad68998329b3224a0347e6a30cd494bea9", "dirty": true, "diff_sha256": "a259dae3011daa1c"}
// module: c_container
/// Test generated for harness `c_container::c10_step_waiting_jxlp_index` 
///
/// Check for `assertion`: "assertion failed: state_matches(&spec, &post)"

#[test]
fn kani_concrete_playback_c10_step_waiting_jxlp_index_1903198878607192459() {
    let concrete_vals: Vec<Vec<u8>> = vec![
        // 128
        vec![128],
        // 0
        vec![0],
        // 0
        vec![0],
        // 0
        vec![0],
        // 255
        vec![255],
        // 255
        vec![255],
        // 255
        vec![255],
        // 255
        vec![255],
        // 255
        vec![255],
        // 255
        vec![255],
        // 255
        vec![255],
        // 255
        vec![255],
        // 255
        vec![255],
        // 255
        vec![255],
        // 255
        vec![255],
        // 255
        vec![255],
        // 255
        vec![255],
        // 255
        vec![255],
        // 255
        vec![255],
        // 255
        vec![255],
        // 12ul
        vec![12, 0, 0, 0, 0, 0, 0, 0],
        // 1
        vec![1],
        // 12ul
        vec![12, 0, 0, 0, 0, 0, 0, 0],
        // 106
        vec![106],
        // 120
        vec![120],
        // 108
        vec![108],
        // 112
        vec![112],
        // 0
        vec![0],
        // 1
        vec![1],
        // 18446744073709551615ul
        vec![255, 255, 255, 255, 255, 255, 255, 255],
        // 3
        vec![3],
        // 1
        vec![1],
        // 2
        vec![2],
        // 0
        vec![0, 0, 0, 0],
    ];
    kani::concrete_playback_run(concrete_vals, c10_step_waiting_jxlp_index);
}

