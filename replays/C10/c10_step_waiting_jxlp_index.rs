// counterexample for c_container::c10_step_waiting_jxlp_index (property C10) found by CBMC; replay with
//   /verif/bin/check --replay /verif/replays/C10/c10_step_waiting_jxlp_index.rs
// repo: {"head": "736f7b025cf48e86662bf74aeb57bde61d8d7ccc", "dirty": true, "diff_sha256": "0d41a638d70b1b4d"}
// module: c_container
/// Test generated for harness `c_container::c10_step_waiting_jxlp_index` 
///
/// Check for `assertion`: "assertion failed: state_matches(&spec, &post)"

#[test]
fn kani_concrete_playback_c10_step_waiting_jxlp_index_16468841174217106684() {
    let concrete_vals: Vec<Vec<u8>> = vec![
        // 255
        vec![255],
        // 255
        vec![255],
        // 255
        vec![255],
        // 248
        vec![248],
        // 255
        vec![255],
        // 255
        vec![255],
        // 255
        vec![255],
        // 255
        vec![255],
        // 255
        vec![255],
        // 255
        vec![255],
        // 255
        vec![255],
        // 255
        vec![255],
        // 255
        vec![255],
        // 255
        vec![255],
        // 255
        vec![255],
        // 255
        vec![255],
        // 255
        vec![255],
        // 255
        vec![255],
        // 255
        vec![255],
        // 255
        vec![255],
        // 5ul
        vec![5, 0, 0, 0, 0, 0, 0, 0],
        // 1
        vec![1],
        // 5ul
        vec![5, 0, 0, 0, 0, 0, 0, 0],
        // 106
        vec![106],
        // 120
        vec![120],
        // 108
        vec![108],
        // 112
        vec![112],
        // 0
        vec![0],
        // 1
        vec![1],
        // 18446744073709551615ul
        vec![255, 255, 255, 255, 255, 255, 255, 255],
        // 3
        vec![3],
        // 1
        vec![1],
        // 2
        vec![2],
        // 2147483640
        vec![248, 255, 255, 127],
    ];
    kani::concrete_playback_run(concrete_vals, c10_step_waiting_jxlp_index);
}

