// counterexample for c_container::c10_step_waiting_signature (property C10) found by CBMC; replay with
//   /verif/bin/check --replay /verif/replays/C10/c10_step_waiting_signature.rs
// repo: {"head": "1e6d09195bdfe3dd7c30f96ad79cc9c8becbeda7", "dirty": true, "diff_sha256": "0a90fde60109bb5b"}
// module: c_container
/// Test generated for harness `c_container::c10_step_waiting_signature` 
///
/// Check for `assertion`: "assertion failed: got == want"

#[test]
fn kani_concrete_playback_c10_step_waiting_signature_12542339334496323648() {
    let concrete_vals: Vec<Vec<u8>> = vec![
        // 0
        vec![0],
        // 10
        vec![10],
        // 0
        vec![0],
        // 12
        vec![12],
        // 74
        vec![74],
        // 88
        vec![88],
        // 76
        vec![76],
        // 32
        vec![32],
        // 13
        vec![13],
        // 10
        vec![10],
        // 135
        vec![135],
        // 10
        vec![10],
        // 135
        vec![135],
        // 7
        vec![7],
        // 255
        vec![255],
        // 255
        vec![255],
        // 255
        vec![255],
        // 255
        vec![255],
        // 255
        vec![255],
        // 255
        vec![255],
        // 1ul
        vec![1, 0, 0, 0, 0, 0, 0, 0],
        // 0
        vec![0],
        // 0
        vec![0],
        // 0
        vec![0],
        // 0
        vec![0],
        // 0
        vec![0],
        // 1
        vec![1],
        // 106
        vec![106],
        // 98
        vec![98],
        // 114
        vec![114],
        // 100
        vec![100],
        // 0
        vec![0],
        // 3
        vec![3],
        // 1
        vec![1],
        // 0
        vec![0],
        // 2147483647
        vec![255, 255, 255, 127],
    ];
    kani::concrete_playback_run(concrete_vals, c10_step_waiting_signature);
}

