// counterexample for c_grid::c13_aligned_grid_try_clone (property C13) found by CBMC; replay with
//   /verif/bin/check --replay /verif/replays/C13/c13_aligned_grid_try_clone.rs
// repo: {"head": "75adb00f951e533c593b74d7f6f65a52e2fede11", "dirty": true, "diff_sha256": "74bc209783d07d3e"}
// module: c_grid
/// Test generated for harness `c_grid::c13_aligned_grid_try_clone` 
///
/// Check for `assertion`: "assertion failed: 2 * need <= limit"

#[test]
fn kani_concrete_playback_c13_aligned_grid_try_clone_6363649500934821635() {
    let concrete_vals: Vec<Vec<u8>> = vec![
        // 70
        vec![70, 0],
    ];
    kani::concrete_playback_run(concrete_vals, c13_aligned_grid_try_clone);
}

/// Test generated for harness `c_grid::c13_aligned_grid_try_clone` 
///
/// Check for `assertion`: "assertion failed: tracker.shrink_limit(limit - 2 * need + 1).is_err()"

#[test]
fn kani_concrete_playback_c13_aligned_grid_try_clone_17792149889082498016() {
    let concrete_vals: Vec<Vec<u8>> = vec![
        // 288
        vec![32, 1],
    ];
    kani::concrete_playback_run(concrete_vals, c13_aligned_grid_try_clone);
}

