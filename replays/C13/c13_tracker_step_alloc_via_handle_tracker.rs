// counterexample for c_grid::c13_tracker_step_alloc_via_handle_tracker (property C13) found by CBMC; replay with
//   /verif/bin/check --replay /verif/replays/C13/c13_tracker_step_alloc_via_handle_tracker.rs
// repo: {"head": "1e6d09195bdfe3dd7c30f96ad79cc9c8becbeda7", "dirty": true, "diff_sha256": "be857b137c25afc6"}
// module: c_grid
/// Test generated for harness `c_grid::c13_tracker_step_alloc_via_handle_tracker` 
///
/// Check for `cover`: "alloc through handle.tracker() succeeds"

#[test]
fn kani_concrete_playback_c13_tracker_step_alloc_via_handle_tracker_12078415946476436968() {
    let concrete_vals: Vec<Vec<u8>> = vec![
        // 0
        vec![0, 0, 0, 0],
        // 0
        vec![0, 0, 0, 0],
        // 0
        vec![0, 0, 0, 0],
        // 0
        vec![0, 0, 0, 0],
        // 0
        vec![0, 0, 0, 0],
    ];
    kani::concrete_playback_run(concrete_vals, c13_tracker_step_alloc_via_handle_tracker);
}

