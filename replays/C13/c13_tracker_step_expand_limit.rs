// counterexample for c_grid::c13_tracker_step_expand_limit (property C13) found by CBMC; replay with
//   /verif/bin/check --replay /verif/replays/C13/c13_tracker_step_expand_limit.rs
// repo: {"head": "1e6d09195bdfe3dd7c30f96ad79cc9c8becbeda7", "dirty": true, "diff_sha256": "be857b137c25afc6"}
// module: c_grid
/// Test generated for harness `c_grid::c13_tracker_step_expand_limit` 
///
/// Check for `cover`: "limit expanded"

#[test]
fn kani_concrete_playback_c13_tracker_step_expand_limit_6061618129396619021() {
    let concrete_vals: Vec<Vec<u8>> = vec![
        // 16664629
        vec![53, 72, 254, 0],
        // 835331
        vec![3, 191, 12, 0],
        // 6674
        vec![18, 26, 0, 0],
        // 1015174
        vec![134, 125, 15, 0],
        // 16791544
        vec![248, 55, 0, 1],
    ];
    kani::concrete_playback_run(concrete_vals, c13_tracker_step_expand_limit);
}

