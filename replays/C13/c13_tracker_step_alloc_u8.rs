// counterexample for c_grid::c13_tracker_step_alloc_u8 (property C13) found by CBMC; replay with
//   /verif/bin/check --replay /verif/replays/C13/c13_tracker_step_alloc_u8.rs
// repo: {"head": "1e6d09195bdfe3dd7c30f96ad79cc9c8becbeda7", "dirty": true, "diff_sha256": "be857b137c25afc6"}
// module: c_grid
/// Test generated for harness `c_grid::c13_tracker_step_alloc_u8` 
///
/// Check for `assertion`: "assertion failed: t.shrink_limit(budget).is_ok()"

#[test]
fn kani_concrete_playback_c13_tracker_step_alloc_u8_10783275196718298150() {
    let concrete_vals: Vec<Vec<u8>> = vec![
        // 882622
        vec![190, 119, 13, 0],
        // 34791
        vec![231, 135, 0, 0],
        // 102623
        vec![223, 144, 1, 0],
        // 764492
        vec![76, 170, 11, 0],
        // 4186732
        vec![108, 226, 63, 0],
    ];
    kani::concrete_playback_run(concrete_vals, c13_tracker_step_alloc_u8);
}

