// counterexample for c_grid::c13_tracker_step_shrink_limit (property C13) found by CBMC; replay with
//   /verif/bin/check --replay /verif/replays/C13/c13_tracker_step_shrink_limit.rs
// repo: {"head": "1e6d09195bdfe3dd7c30f96ad79cc9c8becbeda7", "dirty": true, "diff_sha256": "be857b137c25afc6"}
// module: c_grid
/// Test generated for harness `c_grid::c13_tracker_step_shrink_limit` 
///
/// Check for `assertion`: "assertion failed: r.is_ok()"

#[test]
fn kani_concrete_playback_c13_tracker_step_shrink_limit_12718011743767342139() {
    let concrete_vals: Vec<Vec<u8>> = vec![
        // 5246048
        vec![96, 12, 80, 0],
        // 966043
        vec![155, 189, 14, 0],
        // 1045485
        vec![237, 243, 15, 0],
        // 229376
        vec![0, 128, 3, 0],
        // 65536
        vec![0, 0, 1, 0],
    ];
    kani::concrete_playback_run(concrete_vals, c13_tracker_step_shrink_limit);
}

