// counterexample for c_grid::c13_tracker_step_drop_handle (property C13) found by CBMC; replay with
//   /verif/bin/check --replay /verif/replays/C13/c13_tracker_step_drop_handle.rs
// repo: {"head": "1e6d09195bdfe3dd7c30f96ad79cc9c8becbeda7", "dirty": true, "diff_sha256": "be857b137c25afc6"}
// module: c_grid
/// Test generated for harness `c_grid::c13_tracker_step_drop_handle` 
///
/// Check for `assertion`: "assertion failed: t.shrink_limit(budget).is_ok()"

#[test]
fn kani_concrete_playback_c13_tracker_step_drop_handle_15489320406919934237() {
    let concrete_vals: Vec<Vec<u8>> = vec![
        // 11241203
        vec![243, 134, 171, 0],
        // 63887
        vec![143, 249, 0, 0],
        // 273024
        vec![128, 42, 4, 0],
        // 1048575
        vec![255, 255, 15, 0],
        // 1077931967
        vec![191, 239, 63, 64],
    ];
    kani::concrete_playback_run(concrete_vals, c13_tracker_step_drop_handle);
}

