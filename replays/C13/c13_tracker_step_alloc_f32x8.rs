// counterexample for c_grid::c13_tracker_step_alloc_f32x8 (property C13) found by CBMC; replay with
//   /verif/bin/check --replay /verif/replays/C13/c13_tracker_step_alloc_f32x8.rs
// repo: {"head": "1e6d09195bdfe3dd7c30f96ad79cc9c8becbeda7", "dirty": true, "diff_sha256": "be857b137c25afc6"}
// module: c_grid
/// Test generated for harness `c_grid::c13_tracker_step_alloc_f32x8` 
///
/// Check for `cover`: "alloc succeeds"

#[test]
fn kani_concrete_playback_c13_tracker_step_alloc_f32x8_8478897559543080409() {
    let concrete_vals: Vec<Vec<u8>> = vec![
        // 1
        vec![1, 0, 0, 0],
        // 1
        vec![1, 0, 0, 0],
        // 0
        vec![0, 0, 0, 0],
        // 0
        vec![0, 0, 0, 0],
        // 4294967295
        vec![255, 255, 255, 255],
    ];
    kani::concrete_playback_run(concrete_vals, c13_tracker_step_alloc_f32x8);
}

