// counterexample for c_grid::c13_aligned_grid_charges_and_releases (property C13) found by CBMC; replay with
//   /verif/bin/check --replay /verif/replays/C13/c13_aligned_grid_charges_and_releases.rs
// repo: {"head": "1e6d09195bdfe3dd7c30f96ad79cc9c8becbeda7", "dirty": true, "diff_sha256": "be857b137c25afc6"}
// module: c_grid
/// Test generated for harness `c_grid::c13_aligned_grid_charges_and_releases` 
///
/// Check for `cover`: "allocation refused"

#[test]
fn kani_concrete_playback_c13_aligned_grid_charges_and_releases_719890589708459972() {
    let concrete_vals: Vec<Vec<u8>> = vec![
        // 37
        vec![37, 0],
    ];
    kani::concrete_playback_run(concrete_vals, c13_aligned_grid_charges_and_releases);
}

