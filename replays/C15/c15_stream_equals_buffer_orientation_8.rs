// counterexample for c_fb::c15_stream_equals_buffer_orientation_8 (property C15) found by CBMC; replay with
//   /verif/bin/check --replay /verif/replays/C15/c15_stream_equals_buffer_orientation_8.rs
// repo: {"head": "1e6d09195bdfe3dd7c30f96ad79cc9c8becbeda7", "dirty": true, "diff_sha256": "cb8cf906f420d8ed"}
// module: c_fb
/// Test generated for harness `c_fb::c15_stream_equals_buffer_orientation_8` 
///
/// Check for `assertion`: "attempt to subtract with overflow"

#[test]
fn kani_concrete_playback_c15_stream_equals_buffer_orientation_8_14760444609767177200() {
    let concrete_vals: Vec<Vec<u8>> = vec![
    ];
    kani::concrete_playback_run(concrete_vals, c15_stream_equals_buffer_orientation_8);
}

