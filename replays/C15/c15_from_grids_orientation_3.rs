// counterexample for c_fb::c15_from_grids_orientation_3 (property C15) found by CBMC; replay with
//   /verif/bin/check --replay /verif/replays/C15/c15_from_grids_orientation_3.rs
// repo: {"head": "c93c86cd220de3e0c91643d1355c9698304d6230", "dirty": true, "diff_sha256": "bcf1798779bb3937"}
// module: c_fb
/// Test generated for harness `c_fb::c15_from_grids_orientation_3` 
///
/// Check for `assertion`: "assertion failed: buf[(ty * ow + tx) * 2] == want0"

#[test]
fn kani_concrete_playback_c15_from_grids_orientation_3_10977801221838070163() {
    let concrete_vals: Vec<Vec<u8>> = vec![
        // 0
        vec![0, 0, 0, 0],
        // 1
        vec![1, 0, 0, 0],
        // 0ul
        vec![0, 0, 0, 0, 0, 0, 0, 0],
        // 0ul
        vec![0, 0, 0, 0, 0, 0, 0, 0],
    ];
    kani::concrete_playback_run(concrete_vals, c15_from_grids_orientation_3);
}

