// counterexample for c_container::c09_reference_chunking_commutes_waiting_box_header (property C09) found by CBMC; replay with
//   /verif/bin/check --replay /verif/replays/C09/c09_reference_chunking_commutes_waiting_box_header.rs
// repo: {"head": "74aab4444ecdedf8094c67b344fb9660c3cebedc", "dirty": false, "diff_sha256": "e3b0c44298fc1c14"}
// module: c_container
/// Test generated for harness `c_container::c09_reference_chunking_commutes_waiting_box_header` 
///
/// Check for `assertion`: "assertion failed: na == nb"

#[test]
fn kani_concrete_playback_c09_reference_chunking_commutes_waiting_box_header_451755705292636734() {
    let concrete_vals: Vec<Vec<u8>> = vec![
        // 0
        vec![0],
        // 0
        vec![0],
        // 0
        vec![0],
        // 11
        vec![11],
        // 98
        vec![98],
        // 114
        vec![114],
        // 111
        vec![111],
        // 226
        vec![226],
        // 0
        vec![0],
        // 0
        vec![0],
        // 0
        vec![0],
        // 0
        vec![0],
        // 12ul
        vec![12, 0, 0, 0, 0, 0, 0, 0],
        // 10ul
        vec![10, 0, 0, 0, 0, 0, 0, 0],
        // 1
        vec![1],
        // 18446744073709551615ul
        vec![255, 255, 255, 255, 255, 255, 255, 255],
        // 98
        vec![98],
        // 120
        vec![120],
        // 108
        vec![108],
        // 112
        vec![112],
        // 1
        vec![1],
        // 255
        vec![255],
        // 255
        vec![255],
        // 255
        vec![255],
        // 255
        vec![255],
        // 1
        vec![1],
        // 18446744073709551615ul
        vec![255, 255, 255, 255, 255, 255, 255, 255],
        // 2
        vec![2],
        // 0
        vec![0],
        // 2
        vec![2],
        // 131842
        vec![2, 3, 2, 0],
    ];
    kani::concrete_playback_run(concrete_vals, c09_reference_chunking_commutes_waiting_box_header);
}

