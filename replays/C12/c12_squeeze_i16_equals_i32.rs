// counterexample for c_modular::c12_squeeze_i16_equals_i32 (property C12) found by CBMC; replay with
//   /verif/bin/check --replay /verif/replays/C12/c12_squeeze_i16_equals_i32.rs
// repo: {"head": "c93c86cd220de3e0c91643d1355c9698304d6230", "dirty": true, "diff_sha256": "db40f5105ae2946f"}
// module: c_modular
/// Test generated for harness `c_modular::c12_squeeze_i16_equals_i32` 
///
/// Check for `assertion`: "assertion failed: narrow[i] as i32 == wide[i]"

#[test]
fn kani_concrete_playback_c12_squeeze_i16_equals_i32_11998729533809493425() {
    let concrete_vals: Vec<Vec<u8>> = vec![
        // -8192
        vec![0, 224],
        // -8198
        vec![250, 223],
        // -30040
        vec![168, 138],
        // -24575
        vec![1, 160],
        // -10900
        vec![108, 213],
        // -2048
        vec![0, 248],
        // 3129
        vec![57, 12],
        // -2048
        vec![0, 248],
        // -4090
        vec![6, 240],
        // -120
        vec![136, 255],
    ];
    kani::concrete_playback_run(concrete_vals, c12_squeeze_i16_equals_i32);
}

