// counterexample for c_modular::c12_tendency_i16_equals_i32 (property C12) found by CBMC; replay with
//   /verif/bin/check --replay /verif/replays/C12/c12_tendency_i16_equals_i32.rs
// repo: {"head": "c93c86cd220de3e0c91643d1355c9698304d6230", "dirty": true, "diff_sha256": "db40f5105ae2946f"}
// module: c_modular
/// Test generated for harness `c_modular::c12_tendency_i16_equals_i32` 
///
/// Check for `assertion`: "assertion failed: squeeze::tendency_i16(a, b, c) as i32 == wide"

#[test]
fn kani_concrete_playback_c12_tendency_i16_equals_i32_8138400968412977511() {
    let concrete_vals: Vec<Vec<u8>> = vec![
        // 0
        vec![0, 0],
        // 0
        vec![0, 0],
        // 2688
        vec![128, 10],
    ];
    kani::concrete_playback_run(concrete_vals, c12_tendency_i16_equals_i32);
}

