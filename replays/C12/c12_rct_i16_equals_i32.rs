// counterexample for c_modular::c12_rct_i16_equals_i32 (property C12) found by CBMC; replay with
//   /verif/bin/check --replay /verif/replays/C12/c12_rct_i16_equals_i32.rs
// repo: {"head": "74aab4444ecdedf8094c67b344fb9660c3cebedc", "dirty": true, "diff_sha256": "889018dc946ce38d"}
// module: c_modular
/// Test generated for harness `c_modular::c12_rct_i16_equals_i32` 
///
/// Check for `assertion`: "assertion failed: na[0] as i32 == wa[0] && nb[0] as i32 == wb[0] && nc[0] as i32 == wc[0]"

#[test]
fn kani_concrete_playback_c12_rct_i16_equals_i32_15608697217388122431() {
    let concrete_vals: Vec<Vec<u8>> = vec![
        // 1627
        vec![91, 6],
        // -743
        vec![25, 253],
        // 1811
        vec![19, 7],
        // 13677
        vec![109, 53],
        // 7159
        vec![247, 27],
        // -27225
        vec![167, 149],
        // 6098
        vec![210, 23],
        // 6018
        vec![130, 23],
        // 7601
        vec![177, 29],
        // 15065
        vec![217, 58],
        // 22275
        vec![3, 87],
        // -18025
        vec![151, 185],
        // 7664
        vec![240, 29],
        // -399
        vec![113, 254],
        // -17007
        vec![145, 189],
        // 20139
        vec![171, 78],
        // -1
        vec![255, 255],
        // 21634
        vec![130, 84],
        // -2466
        vec![94, 246],
        // 2817
        vec![1, 11],
        // -2241
        vec![63, 247],
    ];
    kani::concrete_playback_run(concrete_vals, c12_rct_i16_equals_i32);
}

