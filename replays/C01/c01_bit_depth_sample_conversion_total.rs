// counterexample for c_image::c01_bit_depth_sample_conversion_total (property C01) found by CBMC; replay with
//   /verif/bin/check --replay /verif/replays/C01/c01_bit_depth_sample_conversion_total.rs
// repo: {"head": "393c6d4f96c5f4d594f3e6ae550ed701d42136c5", "dirty": true, "diff_sha256": "5916e0b023267213"}
// module: c_image
/// Test generated for harness `c_image::c01_bit_depth_sample_conversion_total` 
///
/// Check for `assertion`: "attempt to subtract with overflow"

#[test]
fn kani_concrete_playback_c01_bit_depth_sample_conversion_total_14855566776903388958() {
    let concrete_vals: Vec<Vec<u8>> = vec![
        // 31
        vec![31],
        // 238
        vec![238],
    ];
    kani::concrete_playback_run(concrete_vals, c01_bit_depth_sample_conversion_total);
}

/// Test generated for harness `c_image::c01_bit_depth_sample_conversion_total` 
///
/// Check for `assertion`: "attempt to subtract with overflow"

#[test]
fn kani_concrete_playback_c01_bit_depth_sample_conversion_total_14914044495024911193() {
    let concrete_vals: Vec<Vec<u8>> = vec![
        // 63
        vec![63],
        // 238
        vec![238],
    ];
    kani::concrete_playback_run(concrete_vals, c01_bit_depth_sample_conversion_total);
}

