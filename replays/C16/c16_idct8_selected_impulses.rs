// counterexample for c_dct::c16_idct8_selected_impulses (property C16) found by CBMC; replay with
//   /verif/bin/check --replay /verif/replays/C16/c16_idct8_selected_impulses.rs
// repo: {"head": "75adb00f951e533c593b74d7f6f65a52e2fede11", "dirty": true, "diff_sha256": "3360350b85826008"}
// module: c_dct
/// Test generated for harness `c_dct::c16_idct8_selected_impulses` 
///
/// Check for `assertion`: "assertion failed: close(buf[i], v as f64 * basis[k][i], (v as f64).abs())"

#[test]
fn kani_concrete_playback_c16_idct8_selected_impulses_12828148106274955005() {
    let concrete_vals: Vec<Vec<u8>> = vec![
        // 2ul
        vec![2, 0, 0, 0, 0, 0, 0, 0],
        // 0ul
        vec![0, 0, 0, 0, 0, 0, 0, 0],
        // 2ul
        vec![2, 0, 0, 0, 0, 0, 0, 0],
        // 0ul
        vec![0, 0, 0, 0, 0, 0, 0, 0],
    ];
    kani::concrete_playback_run(concrete_vals, c16_idct8_selected_impulses);
}

