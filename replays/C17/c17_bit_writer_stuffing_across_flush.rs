// counterexample for c_jbr::c17_bit_writer_stuffing_across_flush (property C17) found by CBMC; replay with
//   /verif/bin/check --replay /verif/replays/C17/c17_bit_writer_stuffing_across_flush.rs
// repo: {"head": "736f7b025cf48e86662bf74aeb57bde61d8d7ccc", "dirty": true, "diff_sha256": "53899c5a7511a25c"}
// module: c_jbr
/// Test generated for harness `c_jbr::c17_bit_writer_stuffing_across_flush` 
///
/// Check for `assertion`: "assertion failed: out.len() == wn"
///
/// # Warning
///
/// Concrete playback tests combined with stubs or contracts is highly
/// experimental, and subject to change.
///
/// The original harness has stubs which are not applied to this test.
/// This may cause a mismatch of non-deterministic values if the stub
/// creates any non-deterministic value.
/// The execution path may also differ, which can be used to refine the stub
/// logic.

#[test]
fn kani_concrete_playback_c17_bit_writer_stuffing_across_flush_9200074996619306454() {
    let concrete_vals: Vec<Vec<u8>> = vec![
        // 18446744073709551615ul
        vec![255, 255, 255, 255, 255, 255, 255, 255],
        // 18446744073709551615ul
        vec![255, 255, 255, 255, 255, 255, 255, 255],
        // 18446744073709551615ul
        vec![255, 255, 255, 255, 255, 255, 255, 255],
        // 18446744073709551615ul
        vec![255, 255, 255, 255, 255, 255, 255, 255],
    ];
    kani::concrete_playback_run(concrete_vals, c17_bit_writer_stuffing_across_flush);
}

