// native search replay for c_jbr::c17_sequential_block_zero_run_16 (property C17); replay with
//   /verif/bin/check --replay /verif/replays/C17/c17_sequential_block_zero_run_16.rs
// repo: {"head": "377b246b86fe1f830d8198ef2f89636ed8d8dade", "dirty": true, "diff_sha256": "1147ff0d275368da"}
// module: c_jbr
/// Test generated for harness `c_jbr::c17_sequential_block_zero_run_16` by bin/check (native search replay)
#[test]
fn kani_concrete_playback_c17_sequential_block_zero_run_16_search() {
    let mut found = None;
    'search: {
        for v0 in ((-1023) as i64..=(1023) as i64).step_by(341) {
            for v1 in ((-1023) as i64..=(1023) as i64).step_by(3) {
                for v2 in ((0) as i64..=(33) as i64).step_by(1) {
                    let vals: Vec<Vec<u8>> = vec![(v0 as i16).to_le_bytes().to_vec(), (v1 as i16).to_le_bytes().to_vec(), (v2 as usize).to_le_bytes().to_vec()];
                    let shown = vals.clone();
                    let r = std::thread::spawn(move || kani::concrete_playback_run(vals, c17_sequential_block_zero_run_16)).join();
                    if let Err(p) = r {
                        let msg = p.downcast_ref::<String>().cloned().or_else(|| p.downcast_ref::<&str>().map(|m| m.to_string())).unwrap_or_default();
                        if !msg.contains("kani::assume") { found = Some((shown, msg)); break 'search; }
                    }
                }
            }
        }
    }
    if let Some((v, msg)) = found { panic!("harness fails natively for the any() values (little-endian bytes) {:?}: {}", v, msg); }
}

