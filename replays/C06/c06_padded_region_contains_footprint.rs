// counterexample for c_region::c06_padded_region_contains_footprint (property C06) found by CBMC; replay with
//   /verif/bin/check --replay /verif/replays/C06/c06_padded_region_contains_footprint.rs
// repo: {"head": "74aab4444ecdedf8094c67b344fb9660c3cebedc", "dirty": true, "diff_sha256": "02a47d5927d709b1"}
// module: c_region
/// Test generated for harness `c_region::c06_padded_region_contains_footprint` 
///
/// Check for `assertion`: "assertion failed: has(color, (x >> ulog) + ox as i64, (y >> ulog) + oy as i64)"

#[test]
fn kani_concrete_playback_c06_padded_region_contains_footprint_17539135773340890414() {
    let concrete_vals: Vec<Vec<u8>> = vec![
        // -7
        vec![249, 255, 255, 255],
        // -64
        vec![192, 255, 255, 255],
        // 65535
        vec![255, 255, 0, 0],
        // 65534
        vec![254, 255, 0, 0],
        // -5
        vec![251, 255, 255, 255],
        // 65469
        vec![189, 255, 0, 0],
        // 0
        vec![0, 0, 0, 0],
        // 0
        vec![0],
        // 1
        vec![1],
        // 1
        vec![1, 0, 0, 0],
        // -1
        vec![255],
        // -1
        vec![255],
    ];
    kani::concrete_playback_run(concrete_vals, c06_padded_region_contains_footprint);
}

