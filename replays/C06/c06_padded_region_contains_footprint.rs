// counterexample for c_region::c06_padded_region_contains_footprint (property C06) found by CBMC; replay with
//   /verif/bin/check --replay /verif/replays/C06/c06_padded_region_contains_footprint.rs
// repo: {"head": "c93c86cd220de3e0c91643d1355c9698304d6230", "dirty": true, "diff_sha256": "8037d956027d4885"}
// module: c_region
/// Test generated for harness `c_region::c06_padded_region_contains_footprint` 
///
/// Check for `assertion`: "assertion failed: has(color, (x >> ulog) + ox as i64, (y >> ulog) + oy as i64)"

#[test]
fn kani_concrete_playback_c06_padded_region_contains_footprint_8090200194356992184() {
    let concrete_vals: Vec<Vec<u8>> = vec![
        // -1
        vec![255, 255, 255, 255],
        // -1
        vec![255, 255, 255, 255],
        // 65536
        vec![0, 0, 1, 0],
        // 65535
        vec![255, 255, 0, 0],
        // -1
        vec![255, 255, 255, 255],
        // -1
        vec![255, 255, 255, 255],
        // 3
        vec![3, 0, 0, 0],
        // 1
        vec![1],
        // 1
        vec![1],
        // 3
        vec![3, 0, 0, 0],
        // -1
        vec![255],
        // -8
        vec![248],
    ];
    kani::concrete_playback_run(concrete_vals, c06_padded_region_contains_footprint);
}

