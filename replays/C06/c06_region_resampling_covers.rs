// counterexample for c_region::c06_region_resampling_covers (property C06) found by CBMC; replay with
//   /verif/bin/check --replay /verif/replays/C06/c06_region_resampling_covers.rs
// repo: {"head": "74aab4444ecdedf8094c67b344fb9660c3cebedc", "dirty": true, "diff_sha256": "02a47d5927d709b1"}
// module: c_region
/// Test generated for harness `c_region::c06_region_resampling_covers` 
///
/// Check for `assertion`: "assertion failed: has(d, x >> f, y >> f)"

#[test]
fn kani_concrete_playback_c06_region_resampling_covers_15432240340569771606() {
    let concrete_vals: Vec<Vec<u8>> = vec![
        // -67229694
        vec![2, 40, 254, 251],
        // 252645356
        vec![236, 15, 15, 15],
        // 67176188
        vec![252, 6, 1, 4],
        // 94675070
        vec![126, 160, 164, 5],
        // -67229440
        vec![0, 41, 254, 251],
        // 347320343
        vec![23, 176, 179, 20],
        // 12
        vec![12, 0, 0, 0],
        // 7
        vec![7, 0, 0, 0],
    ];
    kani::concrete_playback_run(concrete_vals, c06_region_resampling_covers);
}

