// counterexample for c_region::c06_padded_region_contains_footprint_up4 (property C06) found by CBMC; replay with
//   /verif/bin/check --replay /verif/replays/C06/c06_padded_region_contains_footprint_up4.rs
// repo: {"head": "74aab4444ecdedf8094c67b344fb9660c3cebedc", "dirty": true, "diff_sha256": "02a47d5927d709b1"}
// module: c_region
/// Test generated for harness `c_region::c06_padded_region_contains_footprint_up4` 
///
/// Check for `assertion`: "assertion failed: has(sample_region, (x >> ulog) + kx as i64, (y >> ulog) + ky as i64)"

#[test]
fn kani_concrete_playback_c06_padded_region_contains_footprint_up4_16288836414875892948() {
    let concrete_vals: Vec<Vec<u8>> = vec![
        // 2
        vec![2, 0, 0, 0],
        // 51203
        vec![3, 200, 0, 0],
        // 49151
        vec![255, 191, 0, 0],
        // 28670
        vec![254, 111, 0, 0],
        // 32768
        vec![0, 128, 0, 0],
        // 79872
        vec![0, 56, 1, 0],
        // 2
        vec![2, 0, 0, 0],
        // 1
        vec![1],
        // 1
        vec![1],
        // 4
        vec![4, 0, 0, 0],
        // 2
        vec![2],
        // 2
        vec![2],
    ];
    kani::concrete_playback_run(concrete_vals, c06_padded_region_contains_footprint_up4);
}

