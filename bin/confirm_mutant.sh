#!/bin/bash
# usage: confirm_mutant.sh <id> <worktree> <mode> ...   (dev helper for seeding; not a registered check)
#  mode testfile <crate> <name>          : cp demo.rs crates/<crate>/tests/<name>.rs ; cargo test -p <crate> --test <name>
#  mode append <file> <crate> <filter>   : cat demo.rs >> <file> ; cargo test -p <crate> --lib <filter>
#  mode pathmod <file> <crate> <filter> <modname> : append a #[path] module declaration
set -u
ID=$1; WT=$2; MODE=$3; shift 3
cd "$WT" || exit 9
OUT=/tmp/confirm_$ID.txt; : > $OUT
export CARGO_NET_OFFLINE=true
git diff -- crates > /tmp/confirm_$ID.diff
if ! diff -q /tmp/confirm_$ID.diff _mutant/patch.diff >/dev/null; then echo "NOTE: working tree diff != patch.diff (re-applying patch.diff)" >> $OUT; git checkout -- crates; git apply _mutant/patch.diff || { echo "patch does not apply" >> $OUT; exit 8; }; fi
echo "== build + suite with the change" >> $OUT
cargo test --workspace --no-fail-fast --offline 2>&1 | grep -E "^test .* \.\.\. (ok|FAILED)" | sort > /tmp/confirm_$ID.suite
grep -c " ok$" /tmp/confirm_$ID.suite >> $OUT
run_demo() {
  case $MODE in
    testfile) mkdir -p crates/$1/tests; cp _mutant/demo.rs crates/$1/tests/$2.rs; cargo test -p $1 --offline --test $2 2>&1 | grep -E "test result|panicked" | head -5; rm -f crates/$1/tests/$2.rs; rmdir crates/$1/tests 2>/dev/null;;
    append) cp $1 /tmp/confirm_$ID.bak; cat _mutant/demo.rs >> $1; cargo test -p $2 --offline --lib $3 2>&1 | grep -E "test result|panicked" | head -5; cp /tmp/confirm_$ID.bak $1;;
    pathmod) cp $1 /tmp/confirm_$ID.bak; printf '\n#[cfg(test)]\n#[path = "%s"]\nmod %s;\n' "$WT/_mutant/demo.rs" "$4" >> $1; cargo test -p $2 --offline --lib $3 2>&1 | grep -E "test result|panicked" | head -5; cp /tmp/confirm_$ID.bak $1;;
  esac
}
echo "== demo WITH the change (must fail)" >> $OUT
run_demo "$@" >> $OUT 2>&1
git apply -R _mutant/patch.diff
echo "== demo WITHOUT the change (must pass)" >> $OUT
run_demo "$@" >> $OUT 2>&1
git apply _mutant/patch.diff
cat $OUT
