#!/usr/bin/env python3
"""Regenerates /verif/MANIFEST.json from the table below (kept in one place so the
manifest is always schema-valid)."""
import json, os
V = os.path.dirname(os.path.dirname(os.path.abspath(__file__)))

BMC = "bounded model checking of the compiled real code: Kani 0.68 -> CBMC 6.11 (CaDiCaL) decides every assertion, overflow/panic/pointer check for all values of the symbolic inputs within the stated bounds; counterexamples are replayed natively (cargo kani playback) before a VIOLATION is printed"
NOTE = ("Trusted: Kani's translation of MIR and CBMC's bit-precise semantics; dev-profile semantics (overflow checks and debug assertions on); "
        "no-op `tracing` stub crate; harness-side spec models in harness/src/spec transcribed from ISO/IEC 18181; bounds, assumptions and units per harness are in the evidence file; "
        "nothing is claimed outside the bounds (whole-file decoding is not encoded)")

CLAIMED = {
 "C01": ("2.C01", "Totality (no panic, no overflow in a checked build, bounded loops via unwinding assertions) of the parsing units the property names, for every input within each harness's bound; not the composed decoder."),
 "C02": ("2.C02", "Kani pointer/validity checks over the real unsafe blocks of jxl-grid subgrids and the bitstream refill for all shapes within bounds, plus disjointness/cover of split and into_groups; SIMD kernels outside."),
 "C03": ("2.C03", "Sample-arithmetic units of lossless Modular decoding (predictors and properties through the real incremental state, inverse RCT for all types and permutations, inverse squeeze, implicit palette entries at every integer depth, sample ops) decided against transcriptions of ISO/IEC 18181-1 Annex H: equality with the exact formulas and decode(encode(x)) == x for all values within bounds; not the composed image decoder."),
 "C12": ("2.C12", "Narrow (i16) and wide (i32) scalar kernels (tendency, inverse squeeze h/v, RCT, sample ops) produce identical samples for all inputs under the semantic '16 bits suffice' precondition (12 bits + sign); SIMD drivers outside."),
 "C04": ("2.C04", "Units of the entropy decoder against the format: hybrid-integer configuration parsing and value expansion as the exact inverse of the reference encoder for every configuration and every u32, field widths, one LZ77 step and one RLE-mode step (run length computed without wrapping) from symbolic states, ANS/prefix table units where tractable; not whole streams."),
 "C05": ("2.C05", "Region algebra used by frame composition (intersection, merge, contains, translate) decided against set semantics for all rectangles within the format's coordinate limits; blend kernels: see evidence (float kernels where tractable)."),
 "C06": ("2.C06", "Integer geometry that makes region-of-interest rendering sound: every resampling/padding/alignment step and the composed padding of the colour stage contain the dependency footprint of every requested pixel, for all rectangles and stage selections within bounds; group partition of the sample grid. Pixel equality of renders is outside."),
 "C15": ("2.C15", "Orientation maps of the interleaved frame buffer and of the sample stream against the specification's map for all 8 orientations and partly-outside copy regions, equality of stream and buffer, and the integer output conversions (rounding, clamping, 8/16-bit fast paths over 32-bit and 16-bit grids) for every sample value; on 3x2 pixels."),
 "C16": ("2.C16", "Generic (scalar) path only, small sizes: the real 2-D driver dct_2d_generic with the recursive 1-D kernels is run on unit impulses of 1x4, 1x8 and 4x4 blocks (quick), 1x8 with the forward round trip and 8x4/4x8 (thorough) and on the 2x2/2x1 butterflies and compared with the cosine-sum definition evaluated in double precision (table generated from the formula), within 1e-5 absolute per unit coefficient; linearity of the kernels (only +,-,* by constants) carries impulses to blocks up to float rounding, which is not decided. Sizes above 8, non-DCT transforms, LF injection and all x86 vector code are outside."),
 "C17": ("2.C17", "Units of JPEG reconstruction: MSB-first bit packing with 0xFF byte stuffing across buffer flushes equals the T.81 rule for all bit values; canonical Huffman code assignment and lookup failure, degenerate tables (sentinel only, over-subscribed) build without panic; APP marker records of hostile reconstruction data are rejected or give total size queries; one baseline block (DC difference of any value below 1024, seven AC zero-run layouts incl. runs of exactly 15, 16 and 17) is coded as T.81 F.1.2 prescribes. Byte-exact whole files, progressive scans and restart intervals are outside."),
 "C18": ("2.C18", "Units of ICC decoding against ISO/IEC 18181-1 Annex E: context function (all inputs), header prediction table (all positions and contents), 2- and 4-way shuffles (lengths 1..9; ragged 4-way lengths only where the reading is unambiguous), header-only profiles through decode_icc. Tag-list and main-content command interpreters are outside (experimental harnesses do not finish; finding F06 there was made by reading)."),
 "C09": ("2.C09", "Container level only: the one-step harnesses of C10 are quantified over every buffer length (1..=20 bytes offered from every valid parser state), so a step on a short chunk is specified for every cut of the next bytes: it either reports need-more-data with the bytes it consumed or the same event the long chunk gives up to the cut (finding F01 was exactly a cut-dependent result). Frame::feed_bytes and the JxlImage carry-over are not encoded."),
 "C10": ("2.C10", "One-step functional equivalence of the real container state machine with a reference semantics written from the format rules, from every valid parser state (inductive: successor states are shown valid), for every buffer up to 20 bytes of any length: events, payload extents, consumed bytes, successor state, and rejection of every ill-formed layout."),
 "C11": ("2.C11", "For every buffer within bounds and every cut, reads on the prefix equal the reads on the full buffer or are classified as unexpected EOF."),
 "C13": ("2.C13", "Inductive step of the allocation accounting from an arbitrary tracker state, and exact charge/release of AlignedGrid allocations under every limit."),
 "C14": ("2.C14", "Round trip / differential against the spec's decoding procedure for U32, U64, F16, Enum, ZeroPadToByte and the header bundles, for every encoding within bounds, including exact bit counts."),
}
NA = {
 "C07": "quantifier is thread schedules and pool sizes; Kani/CBMC do not model threads, rayon or relaxed atomics, and no sequential unit decides schedule independence (the disjoint-partition premise is checked under C02)",
 "C08": "symbolic execution of the real render handle (state.rs / RenderedImage::blend) does not finish: every assignment to FrameRender<S> expands the drop glue of InProgress(Box<RenderCache<S>>) (LfGlobal, HfGlobal, HashMap<LfGroup>): >15 min in symex with all outcomes concrete and unwind 2 (harness kept in harness/src/c_render.rs, not compiled). The defect this property is about was found by reading and confirmed natively (finding F03, fixed).",
 "C19": "the property is about floating-point transfer curves (powf/exp/log via libm), ICC synthesis into a heap byte vector and tolerance parsing back: CBMC has no model of the transcendental functions (they become nondeterministic, so any equality/monotonicity claim would be unsound or vacuous) and symbolic-by-symbolic f32 products did not finish in the probes made for C05/C16; no integer-level unit of this property carries its meaning",
 "C20": "quantifier is thread interleavings; Kani/CBMC do not model threads, and the sequentialised monitor obligations need the same render-handle harness as C08, whose symbolic execution does not finish (see C08).",
}
import subprocess
try:
    HOOK_COMMITS = [l.split()[0] for l in subprocess.run(["git", "-C", "/repo", "log", "--format=%h %s"], capture_output=True, text=True).stdout.splitlines() if " verif hook " in " " + l.split(" ", 1)[1] + " " and l.split(" ", 1)[1].startswith("verif hook")][::-1]
except Exception:
    HOOK_COMMITS = []

m = {
 "version": 1,
 "setup_cmd": "true",
 "hooks": {
  "guard": "--cfg jxl_oxide_verif",
  "enable": "RUSTFLAGS='--cfg jxl_oxide_verif' (set by bin/check for cargo kani; reaches the path-dependency crates under /repo/crates)",
  "baseline_off_cmd": "cd /repo && cargo test --workspace --no-fail-fast --offline",
  "source_commits": HOOK_COMMITS,
  "add_only": True,
 },
 "engines": [
  {"name": "kani-cbmc", "path": "harness/ + bin/check", "serves_properties": sorted(CLAIMED), "kind_free_text": "Kani proof harnesses over the real crates (path deps on /repo/crates), CBMC/CaDiCaL as the deciding solver, native playback for replay"},
 ],
 "checks": [],
 "notes": "See DESIGN.md. Exit 2 of a check = inconclusive (timeout / OOM / vacuous cover / non-reproducing counterexample); never reported as a pass.",
 "not_applicable": [{"property_id": k, "reason": v} for k, v in sorted(NA.items()) if k not in CLAIMED],
}
for pid in sorted(CLAIMED):
    ref, text = CLAIMED[pid]
    m["checks"].append({
     "property_id": pid,
     "quick_cmd": f"bin/check {pid} --tier quick",
     "thorough_cmd": f"bin/check {pid} --tier thorough",
     "evidence_file": f"/verif/evidence/{pid}.json",
     "replay_cmd_template": "bin/check --replay {path}",
     "engine": "kani-cbmc",
     "level_claimed": {"category": "model_checking", "text": text + " Bounded: a verdict for all inputs inside the per-harness bounds, nothing outside.", "design_ref": ref},
     "level_note": NOTE,
     "technique": BMC,
    })
json.dump(m, open(os.path.join(V, "MANIFEST.json"), "w"), indent=1)
print("claimed:", sorted(CLAIMED), "n/a:", [x["property_id"] for x in m["not_applicable"]])
